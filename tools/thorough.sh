#!/bin/bash
# tools/thorough.sh [IDs...] : thorough tier one by one with a per-check wall limit; log to stdout
ids=${@:-C01 C02 C03 C04 C05 C06 C07 C08 C09 C10 C11 C12 C13 C14 C15 C16 C17 C18 C19 C20}
cd /verif
for id in $ids; do
  s=$(date +%s)
  timeout --signal=TERM ${LIMIT:-5400} ./check $id --tier thorough > /tmp/thorough_$id.out 2>&1
  rc=$?
  e=$(date +%s)
  echo "$id rc=$rc wall=$((e-s))s $(grep -a -c '^VIOLATION' /tmp/thorough_$id.out) violations $(grep -a -c '^KNOWN' /tmp/thorough_$id.out) known; $(grep -a 'status=' /tmp/thorough_$id.out | tail -1)"
done
