#!/bin/bash
# tools/mutant.sh <patch.diff> <tier> <ID> [ID...]  -- apply a patch to a scratch copy of /repo, run the repo
# tests there, then run the named checks against the copy (VERIF_REPO) and report exit codes.  /repo untouched.
set -u
patch=$(readlink -f "$1"); tier=$2; shift 2
work=$(mktemp -d /dev/shm/mut.XXXXXX)
trap 'rm -rf "$work"' EXIT
cp -r /repo/wcmatch /repo/tests /repo/pyproject.toml /repo/hatch_build.py "$work"/ 2>/dev/null
cp -r /repo/README.md /repo/LICENSE.md /repo/docs /repo/mkdocs.yml /repo/requirements "$work"/ 2>/dev/null
( cd "$work" && git init -q . && git apply --whitespace=nowarn "$patch" ) || { echo "PATCH-FAILED"; exit 3; }
( cd "$work" && /venv/bin/python -m pytest -q -p no:cacheprovider --timeout=900 2>&1 | grep -a -v conda | tail -3 )
for id in "$@"; do
  out=$(cd /verif && VERIF_REPO="$work" VERIF_EVIDENCE_DIR="$work/evidence" VERIF_REPLAY_DIR="$work/replays" ./check "$id" --tier "$tier" 2>&1 | grep -a -v conda)
  rc=$?
  echo "== $id rc=$(echo "$out" | grep -a -c '^VIOLATION') $(echo "$out" | grep -a '^\[' | tail -1)"
  echo "$out" | grep -a -E '^(VIOLATION|HARNESS-ERROR)' | head -3
done
