#!/venv/bin/python
"""tools/seedsweep.py [seed-id ...] : run the relevant quick checks against every seeded mutant (scratch copy, VERIF_REPO)
and record the outcome in seeded/<id>/meta.json (detected_by: {check: violation lines}, needs_to_manifest from notes)."""
import json
import os
import re
import shutil
import subprocess
import sys
import tempfile

EXTRA = {'C03-m2': ['C06'], 'C06-m2': ['C04'], 'C04-m2': ['C06'], 'C08-m1': ['C07'], 'C20-m1': ['C18'], 'C20-m2': ['C10'],
         'C16-m1': ['C03'], 'C05-m2': ['C04'], 'C19-m1': ['C04'], 'C02-m1': ['C03'], 'C03-m1': ['C02'], 'C17-m1': ['C02'],
         'C14-m2': ['C07'], 'C12-m1': ['C13'], 'C01-m5': ['C10', 'C18']}
ids = sys.argv[1:] or sorted(os.listdir('/verif/seeded'))
for sid in ids:
    d = os.path.join('/verif/seeded', sid)
    meta = json.load(open(os.path.join(d, 'meta.json')))
    checks = [meta['property']] + EXTRA.get(sid, [])
    work = tempfile.mkdtemp(prefix='sweep.', dir='/dev/shm')
    try:
        for x in ('wcmatch', 'tests', 'pyproject.toml', 'hatch_build.py', 'README.md', 'LICENSE.md', 'docs', 'mkdocs.yml', 'requirements'):
            p = os.path.join('/repo', x)
            (shutil.copytree if os.path.isdir(p) else shutil.copy)(p, os.path.join(work, x))
        r = subprocess.run('git init -q . && git apply --whitespace=nowarn %s' % os.path.join(d, 'patch.diff'), shell=True, cwd=work,
                           capture_output=True, text=True)
        if r.returncode:
            print(sid, 'PATCH-FAILED', r.stderr[-200:])
            meta['patch_applies_to_current_repo'] = False
            json.dump(meta, open(os.path.join(d, 'meta.json'), 'w'), indent=1)
            continue
        meta['patch_applies_to_current_repo'] = True
        t = subprocess.run('/venv/bin/python -m pytest -q -p no:cacheprovider --timeout=900 2>&1 | tail -1', shell=True, cwd=work,
                           capture_output=True, text=True, env=dict(os.environ, PYTHONPATH=work))
        meta.setdefault('verified', {})['tests_with_patch_on_current_repo'] = t.stdout.strip()
        dm = subprocess.run('/venv/bin/python %s' % os.path.join(d, 'demo.py'), shell=True, cwd=work, capture_output=True, text=True,
                            env=dict(os.environ, PYTHONPATH=work))
        meta['verified']['demo_rc_with_patch_on_current_repo'] = dm.returncode
        det = {}
        for c in checks:
            env = dict(os.environ, VERIF_REPO=work, VERIF_EVIDENCE_DIR=work + '/evidence', VERIF_REPLAY_DIR=work + '/replays')
            o = subprocess.run(['./check', c, '--tier', 'quick'], cwd='/verif', capture_output=True, text=True, env=env)
            nv = len(re.findall(r'^VIOLATION', o.stdout, re.M))
            det[c] = {'exit': o.returncode, 'violation_lines': nv}
        meta['detected_by'] = det
        nt = meta.get('needs_to_manifest') or ''
        if not nt and os.path.exists(os.path.join(d, 'notes.md')):
            notes = open(os.path.join(d, 'notes.md')).read()
            m = re.search(r'(?is)(needs?[^\n]*manifest[^\n]*\n(?:.+\n){1,8})', notes)
            meta['needs_to_manifest'] = (m.group(1).strip() if m else notes[:600]).strip()
        meta['ran'] = 'tools/seedsweep.py: patch applied to a scratch copy of /repo, repository tests, demo.py, then ./check <ID> --tier quick with VERIF_REPO=<copy>'
        json.dump(meta, open(os.path.join(d, 'meta.json'), 'w'), indent=1)
        print(sid, meta['verified']['tests_with_patch_on_current_repo'], 'demo_rc=%d' % dm.returncode, det, flush=True)
    finally:
        shutil.rmtree(work, ignore_errors=True)
