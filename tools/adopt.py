#!/venv/bin/python
"""tools/adopt.py <worktree> <mN> <seed-id> <property> : verify a sub-agent mutant and file it under seeded/<seed-id>/.

Verifies in a scratch copy of /repo: the patch applies, the repository test-suite gives the baseline summary, the
demonstration exits non-zero with the patch and zero without it.
"""
import json
import os
import shutil
import subprocess
import sys
import tempfile

wt, m, sid, prop = sys.argv[1:5]
src = os.path.join(wt, 'mutants', m)
patch = os.path.join(src, 'patch.diff')
demo = os.path.join(src, 'demo.py')
work = tempfile.mkdtemp(prefix='adopt.', dir='/dev/shm')
try:
    for x in ('wcmatch', 'tests', 'pyproject.toml', 'hatch_build.py', 'README.md', 'LICENSE.md', 'docs', 'mkdocs.yml',
              'requirements'):
        p = os.path.join('/repo', x)
        if os.path.isdir(p):
            shutil.copytree(p, os.path.join(work, x))
        elif os.path.exists(p):
            shutil.copy(p, work)
    env = dict(os.environ, PYTHONPATH=work, PYTHONDONTWRITEBYTECODE='1')

    def sh(cmd, **kw):
        return subprocess.run(cmd, shell=True, cwd=work, env=env, capture_output=True, text=True, **kw)

    r0 = sh('/venv/bin/python %s' % demo, timeout=300)
    ap = sh('git init -q . 2>/dev/null; git apply --whitespace=nowarn %s' % patch)
    if ap.returncode:
        # fall back to patch(1) with fuzz, since /repo has moved on with fix commits
        ap = sh('patch -p1 --fuzz=3 < %s' % patch)
    if ap.returncode:
        print('PATCH-FAILED', ap.stdout[-500:], ap.stderr[-500:])
        sys.exit(3)
    t = sh('/venv/bin/python -m pytest -q -p no:cacheprovider --timeout=900 2>&1 | tail -1', timeout=1200)
    r1 = sh('/venv/bin/python %s' % demo, timeout=300)
    summary = t.stdout.strip().splitlines()[-1] if t.stdout.strip() else ''
    ok = ('1194 passed' in summary and '2 failed' in summary and r0.returncode == 0 and r1.returncode != 0)
    print('tests:', summary, '| demo without patch rc=%d, with patch rc=%d' % (r0.returncode, r1.returncode), '| OK' if ok else '| REJECTED')
    if not ok:
        print(r0.stdout[-300:], r0.stderr[-300:], r1.stdout[-300:], r1.stderr[-300:])
        sys.exit(1)
    dst = os.path.join('/verif/seeded', sid)
    os.makedirs(dst, exist_ok=True)
    # store the patch as it applies to the current /repo
    d = sh('git add -A >/dev/null 2>&1; true')
    newpatch = subprocess.run('diff -ru /repo/wcmatch %s/wcmatch | sed -e "s|^--- /repo/|--- a/|" -e "s|^+++ %s/|+++ b/|" -e "/^diff -ru/d" -e "/^Only in/d"' % (work, work),
                              shell=True, capture_output=True, text=True).stdout
    open(os.path.join(dst, 'patch.diff'), 'w').write(newpatch)
    shutil.copy(demo, os.path.join(dst, 'demo.py'))
    notes = open(os.path.join(src, 'notes.md')).read() if os.path.exists(os.path.join(src, 'notes.md')) else ''
    open(os.path.join(dst, 'notes.md'), 'w').write(notes)
    meta = {'id': sid, 'property': prop, 'origin': 'independent sub-agent given only the property text',
            'needs_to_manifest': '', 'verified': {
                'tests_with_patch': summary, 'demo_rc_without_patch': r0.returncode, 'demo_rc_with_patch': r1.returncode,
                'demo_output_with_patch': (r1.stdout + r1.stderr)[-400:]},
            'detected_by': {}}
    open(os.path.join(dst, 'meta.json'), 'w').write(json.dumps(meta, indent=1) + '\n')
finally:
    shutil.rmtree(work, ignore_errors=True)
