#!/venv/bin/python
"""tools/rebase_mutant.py <seed-id> <file> <<< JSON [[old, new], ...]  : re-create a seeded patch against the current /repo."""
import json, os, shutil, subprocess, sys, tempfile
sid, rel = sys.argv[1], sys.argv[2]
edits = json.load(sys.stdin)
w = tempfile.mkdtemp(dir='/dev/shm')
shutil.copytree('/repo/wcmatch', w + '/wcmatch')
p = os.path.join(w, rel)
s = open(p).read()
for old, new in edits:
    assert s.count(old) == 1, (old, s.count(old))
    s = s.replace(old, new)
open(p, 'w').write(s)
d = subprocess.run('diff -u /repo/%s %s' % (rel, p), shell=True, capture_output=True, text=True).stdout
d = d.replace('--- /repo/', '--- a/').replace('+++ ' + w + '/', '+++ b/')
open('/verif/seeded/%s/patch.diff' % sid, 'w').write(d)
shutil.rmtree(w)
print(d)
