#!/bin/bash
# tools/runall.sh <tier> [IDs...] : run checks on /repo, print exit status + wall time, validate evidence files.
tier=${1:-quick}; shift
ids=${@:-C01 C02 C03 C04 C05 C06 C07 C08 C09 C10 C11 C12 C13 C14 C15 C16 C17 C18 C19 C20}
cd /verif
for id in $ids; do
  s=$(date +%s)
  out=$(./check $id --tier $tier 2>&1 | grep -a -v conda)
  rc=${PIPESTATUS[0]}
  e=$(date +%s)
  nv=$(echo "$out" | grep -a -c '^VIOLATION')
  nk=$(echo "$out" | grep -a -c '^KNOWN-FINDING')
  st=$(echo "$out" | grep -a -o 'status=[0-9]' | tail -1)
  echo "$id $st violations=$nv known=$nk wall=$((e-s))s"
  echo "$out" | grep -a -E '^(VIOLATION|HARNESS-ERROR)' | head -3
done
python3-vt - <<'PY'
import json, jsonschema, glob
s=json.load(open('/root/.vp/EVIDENCE.schema.json'))
bad=0
for f in sorted(glob.glob('/verif/evidence/*.json')):
    try:
        jsonschema.validate(json.load(open(f)), s)
    except Exception as e:
        bad+=1; print('EVIDENCE INVALID', f, str(e)[:200])
print('evidence files valid' if not bad else 'evidence problems: %d' % bad)
PY
