#!/venv/bin/python
import json, sys, glob, collections
d = sys.argv[1]
c = collections.Counter()
for f in sorted(glob.glob(d + '/*.json')):
    v = json.load(open(f))
    c[v['kind']] += 1
    if c[v['kind']] <= int(sys.argv[2]) if len(sys.argv) > 2 else 6:
        print(v['kind'], json.dumps(v['input']), '| exp', json.dumps(v['expected'])[:100], '| obs', json.dumps(v['observed'])[:160])
print(dict(c))
