"""Verification framework for facelessuser/wcmatch (model-checking family)."""
