"""Runner: plan -> parallel chunks -> merge -> confirm -> classify -> evidence (DESIGN 2.2-2.6)."""
import collections
import hashlib
import importlib
import json
import multiprocessing
import os
import signal
import sys
import time
import traceback

from . import bind
from . import findings

VERIF = bind.VERIF
MAX_VIOL_LINES = 12
MAX_CONFIRM = 12
MAX_HISTORY_CONFIRM = 3


class HarnessError(Exception):
    """Something in the harness (not in wcmatch) is wrong: exit 2, never a verdict."""


class CaseTimeout(BaseException):
    """Raised by the per-case deadline; BaseException so `except Exception` in wcmatch cannot eat it."""


class deadline:
    """`with deadline(5): ...` raises CaseTimeout after that many seconds (process main thread only)."""

    def __init__(self, seconds):
        self.seconds = seconds

    def _fire(self, signum, frame):
        raise CaseTimeout()

    def __enter__(self):
        self.old = signal.signal(signal.SIGALRM, self._fire)
        signal.setitimer(signal.ITIMER_REAL, self.seconds)
        return self

    def __exit__(self, *exc):
        signal.setitimer(signal.ITIMER_REAL, 0)
        signal.signal(signal.SIGALRM, self.old)
        return False


def jsonable(x):
    """Make a value JSON-safe and stable (bytes -> tagged latin-1, sets -> sorted lists)."""
    if isinstance(x, bytes):
        return {'__bytes__': x.decode('latin-1')}
    if isinstance(x, (str, int, float, bool)) or x is None:
        return x
    if isinstance(x, dict):
        return {str(k): jsonable(v) for k, v in x.items()}
    if isinstance(x, (set, frozenset)):
        return sorted((jsonable(i) for i in x), key=lambda v: json.dumps(v, sort_keys=True))
    if isinstance(x, (list, tuple)):
        return [jsonable(i) for i in x]
    if isinstance(x, BaseException):
        return {'__exc__': type(x).__name__, 'msg': str(x)[:200]}
    return repr(x)


def unjson(x):
    if isinstance(x, dict):
        if set(x) == {'__bytes__'}:
            return x['__bytes__'].encode('latin-1')
        return {k: unjson(v) for k, v in x.items()}
    if isinstance(x, list):
        return [unjson(i) for i in x]
    return x


def stable_hash(obj, n=16):
    return hashlib.sha256(json.dumps(jsonable(obj), sort_keys=True, ensure_ascii=True).encode()).hexdigest()[:n]


def residue(text, mod):
    """Stable residue class of a rendered case (never Python's hash())."""
    return int(hashlib.md5(text.encode('utf-8', 'surrogatepass')).hexdigest()[:8], 16) % mod


def viol(kind, inp, expected, observed, note=''):
    return {'kind': kind, 'input': jsonable(inp), 'expected': jsonable(expected), 'observed': jsonable(observed),
            'note': note}


class ChunkResult:
    """What one chunk returns to the runner."""

    def __init__(self):
        self.n = collections.Counter()          # numeric counters (summed)
        self.known = collections.Counter()      # finding id -> hits
        self.known_ex = {}                      # finding id -> one example violation
        self.viol = []                          # unlisted violations (capped)
        self.viol_total = 0
        self.samples = []
        self.outcomes = set()                   # small strings: distinct observed outcomes
        self.divergences = []
        self.notes = collections.Counter()

    def add_violation(self, prop_id, v):
        fid = findings.classify(prop_id, v)
        if fid is not None:
            self.known[fid] += 1
            if fid not in self.known_ex:
                self.known_ex[fid] = v
            return fid
        self.viol_total += 1
        if len(self.viol) < 40:
            self.viol.append(v)
        return None

    def pack(self):
        return {'n': dict(self.n), 'known': dict(self.known), 'known_ex': self.known_ex, 'viol': self.viol,
                'viol_total': self.viol_total, 'samples': self.samples[:3], 'outcomes': sorted(self.outcomes)[:200],
                'divergences': self.divergences[:5], 'notes': dict(self.notes)}


def _worker(args):
    modname, chunk = args
    mod = importlib.import_module(modname)
    try:
        res = mod.run_chunk(chunk)
        out = res.pack() if isinstance(res, ChunkResult) else res
        if getattr(mod, 'HISTORY_REPLAY', False):
            for v in out['viol']:
                v['history_chunk'] = jsonable(chunk)
        return out
    except CaseTimeout:
        return {'harness_error': 'chunk timeout: %r' % (chunk,)}
    except Exception:
        return {'harness_error': traceback.format_exc()[-3000:] + '\nchunk=%r' % (str(chunk)[:500],)}


def load_prop(prop_id):
    return importlib.import_module('vf.props.' + prop_id.lower())


def write_evidence(prop_id, data):
    d = os.environ.get('VERIF_EVIDENCE_DIR') or os.path.join(VERIF, 'evidence')
    os.makedirs(d, exist_ok=True)
    path = os.path.join(d, prop_id + '.json')
    # the last run of either tier is <id>.json; a thorough run is also kept as <id>.thorough.json so that a later
    # quick run does not erase the record of the deepest exploration
    for target in [path] + ([os.path.join(d, prop_id + '.thorough.json')] if data.get('tier') == 'thorough' else []):
        tmp = target + '.tmp%d' % os.getpid()
        with open(tmp, 'w') as f:
            json.dump(data, f, indent=1, sort_keys=True)
            f.write('\n')
        os.replace(tmp, target)
    return path


def write_replay(prop_id, v):
    d = os.path.join(os.environ.get('VERIF_REPLAY_DIR') or os.path.join(VERIF, 'replays'), prop_id)
    os.makedirs(d, exist_ok=True)
    rec = dict(v)
    rec['property'] = prop_id
    path = os.path.join(d, stable_hash([v['kind'], v['input']]) + '.json')
    with open(path, 'w') as f:
        json.dump(rec, f, indent=1, sort_keys=True)
        f.write('\n')
    return path


def history_confirm(mod, v):
    """Re-run the violation's whole chunk in a fresh process, twice; the same violation must occur both times."""
    import subprocess
    req = json.dumps({'module': mod.__name__, 'chunk': v['history_chunk'], 'target': [v['kind'], v['input']]})
    outs = []
    for _ in range(2):
        r = subprocess.run([sys.executable, '-m', 'vf.histreplay'], input=req, capture_output=True, text=True,
                           cwd=VERIF, timeout=1800)
        line = [ln for ln in r.stdout.splitlines() if ln.startswith('{')]
        if r.returncode != 0 or not line:
            raise HarnessError('history replay failed: %s' % (r.stderr[-400:],))
        outs.append(line[-1])
    if outs[0] != outs[1]:
        raise HarnessError('history replay not deterministic: %s vs %s' % (outs[0][:200], outs[1][:200]))
    o = json.loads(outs[0])
    return o['found'], o['observed']


def confirm(mod, v):
    """Replay twice on the real API, without any explorer. Returns (violates, observed) or raises HarnessError."""
    obs = []
    for _ in range(2):
        bind.clear_caches()
        with deadline(getattr(mod, 'REPLAY_DEADLINE', 60)):
            try:
                r = mod.replay(unjson(v))
            except CaseTimeout:
                r = {'violates': True, 'observed': 'TIMEOUT'}
        obs.append((bool(r['violates']), json.dumps(jsonable(r.get('observed')), sort_keys=True)))
    if obs[0] != obs[1]:
        raise HarnessError('replay not deterministic for %s: %r vs %r' % (json.dumps(v)[:300], obs[0], obs[1]))
    if not obs[0][0] and v.get('history_chunk') is not None:
        # not reproducible in isolation: a history-dependent failure must reproduce when its history is replayed
        found, observed = history_confirm(mod, v)
        if found:
            v['note'] = (v.get('note', '') + ' history-dependent: reproduces only when the earlier cases of its chunk '
                         'run first in the same process').strip()
            return True, observed
    return obs[0][0], json.loads(obs[0][1])


def run_check(prop_id, tier, seed, jobs=None):
    t0 = time.time()
    mod = load_prop(prop_id)
    level = mod.LEVEL
    plan = mod.plan(tier, seed)
    chunks = plan['chunks']
    # replay files of earlier runs of this property are stale by definition: a run reports only what it found itself
    rd = os.path.join(os.environ.get('VERIF_REPLAY_DIR') or os.path.join(VERIF, 'replays'), prop_id)
    if os.path.isdir(rd):
        for fn in os.listdir(rd):
            if fn.endswith('.json'):
                try:
                    os.unlink(os.path.join(rd, fn))
                except OSError:
                    pass
    jobs = jobs or int(os.environ.get('VERIF_JOBS', '0')) or (os.cpu_count() or 4)
    jobs = max(1, min(jobs, len(chunks)))
    n = collections.Counter()
    known = collections.Counter()
    known_ex = {}
    viols = {}
    viol_total = 0
    samples = []
    outcomes = set()
    divergences = []
    notes = collections.Counter()
    errors = []
    work = [(mod.__name__, c) for c in chunks]
    # permute distribution by seed (does not change what is covered)
    k = seed % max(1, len(work))
    work = work[k:] + work[:k]
    if jobs == 1:
        it = map(_worker, work)
        pool = None
    else:
        ctx = multiprocessing.get_context('fork')
        pool = ctx.Pool(jobs, maxtasksperchild=getattr(mod, 'MAXTASKS', None))
        it = pool.imap_unordered(_worker, work, chunksize=1)
    try:
        for r in it:
            if 'harness_error' in r:
                errors.append(r['harness_error'])
                continue
            n.update(r['n'])
            known.update(r['known'])
            for fid, ex in r['known_ex'].items():
                known_ex.setdefault(fid, ex)
            viol_total += r['viol_total']
            for v in r['viol']:
                viols.setdefault(stable_hash([v['kind'], v['input']]), v)
            if len(samples) < 6:
                samples.extend(r['samples'][:2])
            outcomes.update(r['outcomes'])
            divergences.extend(r['divergences'])
            notes.update(r['notes'])
    finally:
        if pool is not None:
            pool.terminate()
            pool.join()

    status = 0
    lines = []
    confirmed = []
    unconfirmed = []
    if errors:
        status = 2
        for e in errors[:3]:
            sys.stderr.write('HARNESS-ERROR: %s\n' % e)
    # confirm violations on the real API
    for h in sorted(viols, key=lambda h: (len(json.dumps(viols[h]['input'])), h))[:MAX_CONFIRM]:
        v = viols[h]
        try:
            still, observed = confirm(mod, v)
        except HarnessError as e:
            status = 2
            sys.stderr.write('HARNESS-ERROR: %s\n' % e)
            continue
        except Exception:
            status = 2
            sys.stderr.write('HARNESS-ERROR: replay crashed: %s\n' % traceback.format_exc()[-1500:])
            continue
        if still:
            confirmed.append(v)
        else:
            unconfirmed.append(v)
    for v in confirmed:
        path = write_replay(prop_id, v)
        if len(lines) < MAX_VIOL_LINES:
            lines.append('VIOLATION property=%s replay=%s' % (prop_id, path))
    if unconfirmed and status == 0:
        # an explorer-only disagreement is a model divergence, never a verdict (DESIGN 2.4)
        status = 2
        for v in unconfirmed[:3]:
            sys.stderr.write('HARNESS-ERROR: violation not reproduced by plain replay: %s\n' % json.dumps(v)[:600])
    # known findings: confirm one example each, print one line each
    kf = findings.load()
    for fid in sorted(known):
        meta = kf.get(fid, {})
        ex = known_ex.get(fid)
        ok = True
        if ex is not None:
            try:
                ok, _ = confirm(mod, ex)
            except Exception as e:  # noqa: BLE001
                ok = False
                sys.stderr.write('HARNESS-ERROR: known finding example failed to replay: %s\n' % e)
            if not ok:
                status = 2
                sys.stderr.write('HARNESS-ERROR: known finding %s example not reproduced: %s\n'
                                 % (fid, json.dumps(ex)[:400]))
        print('KNOWN-FINDING: property=%s %s %s (n=%d)' % (prop_id, fid, meta.get('summary', ''), known[fid]))
    for ln in lines:
        print(ln)
    if confirmed:
        status = 1  # a confirmed violation on the real API outranks a harness hiccup

    cov = dict(plan.get('coverage', {}))
    cov.update({k: int(v) for k, v in n.items()})
    cov['samples'] = (plan.get('samples') or []) + samples[:6]
    if not cov['samples']:
        cov['samples'] = ['(no samples produced)']
    cov['distinct_outcomes'] = len(outcomes)
    cov['outcome_examples'] = sorted(outcomes)[:12]
    cov['known_finding_hits'] = dict(known)
    cov['model_divergences'] = len(divergences)
    if divergences:
        cov['divergence_examples'] = divergences[:5]
    if notes:
        cov['notes'] = dict(notes)
    cov['chunks'] = len(chunks)
    cov['violations_unlisted_total'] = viol_total
    cov.setdefault('rule', plan.get('rule', ''))
    if level == 'model_checking':
        for k in ('states', 'transitions', 'traces_validated_against_impl'):
            cov.setdefault(k, 0)
    cov.setdefault('evaluations', int(n.get('evaluations', 0)))
    cov.setdefault('distinct_nontrivial', int(n.get('distinct_nontrivial', 0)))
    floor = plan.get('nontrivial_floor', 2)
    if status == 0 and (cov['distinct_nontrivial'] < floor or cov['evaluations'] < 1):
        sys.stderr.write('HARNESS-ERROR: vacuous run: distinct_nontrivial=%d < floor=%d\n'
                         % (cov['distinct_nontrivial'], floor))
        status = 2
    min_out = plan.get('min_outcomes', 2)
    if status == 0 and len(outcomes) < min_out:
        sys.stderr.write('HARNESS-ERROR: vacuous run: only %d distinct outcomes\n' % len(outcomes))
        status = 2
    if status == 0 and level == 'model_checking' and (cov['states'] < 1 or cov['transitions'] < 1):
        sys.stderr.write('HARNESS-ERROR: model_checking run without states\n')
        status = 2
    ev = {
        'property_id': prop_id,
        'tier': tier,
        'seed': int(seed),
        'level': level,
        'coverage': cov,
        'assumptions': plan.get('assumptions', []),
        'wall_s': round(time.time() - t0, 2),
        'violations': len(confirmed),
        'repo': bind.REPO,
        'status': status,
    }
    write_evidence(prop_id, ev)
    sys.stderr.write('[%s %s seed=%d] status=%d evals=%d nontrivial=%d outcomes=%d known=%s viol=%d wall=%.1fs\n' % (
        prop_id, tier, seed, status, cov['evaluations'], cov['distinct_nontrivial'], len(outcomes),
        dict(known), len(confirmed), time.time() - t0))
    return status


def run_replay(path):
    with open(path) as f:
        v = json.load(f)
    prop_id = v['property']
    mod = load_prop(prop_id)
    still, observed = confirm(mod, v)
    print(json.dumps({'input': v['input'], 'expected': v.get('expected'), 'observed': observed,
                      'violates': still}, sort_keys=True)[:4000])
    if still:
        fid = findings.classify(prop_id, v)
        if fid:
            print('KNOWN-FINDING: property=%s %s' % (prop_id, fid))
            return 0
        print('VIOLATION property=%s replay=%s' % (prop_id, path))
        return 1
    return 0
