"""CLI: python -m vf.check <ID> --tier quick|thorough | --replay <path>."""
import argparse
import os
import sys


def main(argv=None):
    ap = argparse.ArgumentParser()
    ap.add_argument('prop', nargs='?')
    ap.add_argument('--tier', choices=['quick', 'thorough'], default=os.environ.get('VERIF_TIER') or 'quick')
    ap.add_argument('--replay')
    ap.add_argument('--jobs', type=int, default=0)
    a = ap.parse_args(argv)
    os.environ.setdefault('PYTHONHASHSEED', '0')
    from . import run
    try:
        if a.replay:
            return run.run_replay(a.replay)
        if not a.prop:
            ap.error('property id required')
        seed = int(os.environ.get('VERIF_SEED', '0') or 0)
        return run.run_check(a.prop.upper(), a.tier, seed, a.jobs or None)
    except run.HarnessError as e:
        sys.stderr.write('HARNESS-ERROR: %s\n' % e)
        return 2


if __name__ == '__main__':
    sys.exit(main())
