"""Shared helpers for the FSX-based property checks."""
import hashlib
import os

from . import bind, fsx, run
from wcmatch import glob as G

GFLAGS = {'G': G.GLOBSTAR, 'L': G.GLOBSTARLONG, 'D': G.DOTGLOB, 'E': G.EXTGLOB, 'F': G.FOLLOW, 'X': G.MATCHBASE,
          'Y': G.SCANDOTDIR, 'Z': G.NODOTDIR, 'I': G.IGNORECASE, 'O': G.NODIR, 'K': G.MARK, 'N': G.NEGATE, 'B': G.BRACE,
          'S': G.SPLIT, 'Q': G.NOUNIQUE, 'C': G.CASE, 'W': G.FORCEWIN, 'A': G.NEGATEALL, 'P': G.REALPATH, 'M': G.MINUSNEGATE, 'U': G.FORCEUNIX}


def gflags(fs):
    f = 0
    for ch in fs:
        f |= GFLAGS[ch]
    return f


_layers = {}


def state_layers(max_ops, names=fsx.NAMES, depth=fsx.DEPTH):
    key = (max_ops, names, depth)
    if key not in _layers:
        _layers[key] = fsx.explore(max_ops, names, depth)
    return _layers[key]


def state_chunks(tier, seed, quick=(2, 3, 8), thorough=(3, 4, 8), names=fsx.NAMES, per_chunk=6, extra_roots=()):
    """-> (list of chunks (each a list of state descriptions), coverage dict).

    quick=(K complete, K partial, modulus): all states with <= K complete ops plus the residue class `seed % modulus`
    of the next layer."""
    kc, kp, mod = quick if tier == 'quick' else thorough
    layers, trans = state_layers(kp, names)
    states = []
    for L in layers[:kc + 1]:
        states.extend(L)
    n_complete = len(states)
    part = []
    if kp > kc:
        for s in layers[kp]:
            d = fsx.describe(s)
            if run.residue('|'.join(d), mod) == seed % mod:
                part.append(s)
    states.extend(part)
    for d in extra_roots:
        states.append(fsx.from_desc(d))
    descs = [fsx.describe(s) for s in states]
    chunks = [descs[i:i + per_chunk] for i in range(0, len(descs), per_chunk)]
    cov = {'fs_names': list(names), 'fs_depth': fsx.DEPTH, 'fs_states_complete_layers': kc,
           'fs_states_complete': n_complete, 'fs_states_partial_layer': kp if kp > kc else None,
           'fs_states_partial': len(part), 'fs_partial_modulus': mod if kp > kc else None,
           'fs_transitions_explored': trans, 'fs_states': len(states), 'fs_seed_states': [list(d) for d in extra_roots]}
    return chunks, cov


SEED_STATES = [
    ['a/', 'a/a/', 'a/a/a'],                       # three-level chain (depth beyond D)
    ['a/', 'b/', 'a/l -> ../b', 'b/l -> ../a'],     # mutual cycle
    ['a/', 'a/b', 'b -> a', '.h/', '.h/a'],
    ['a/', 'a/.h/', 'a/.h/b', 'b -> a/.h'],
    ['a/', 'a/a/', 'a/a/b', 'a/b -> a'],             # a directory link one real level below the root
    ['a/', 'a/b/', 'a/b/a', 'b/', 'b/b -> ../a'],      # link into another subtree, no cycle
    ['a/', 'a/a -> .', 'a/b'],                       # link named like its parent
    ['b/', 'b/a/', 'b/a/b -> ../../a', 'a/', 'a/a'],   # directory link two real levels down: with `**/a/**` the first
    ['a/', 'a/a/', 'a/a/b -> ../../b', 'b/', 'b/a'],   # `**` is forced to be non-empty and the second starts below a literal
    ['a/', 'a/a/', 'a/a/a', 'b/', 'b/a/', 'b/a/a'],     # two sibling directories with the same two levels below (`*/a/a`)
    ['b/', 'b/a/', 'b/a/b', 'a -> b'],                  # a top-level link in front of a literal and a second `**` (a/a/b)
    ['a/', 'a/a', 'b/', 'b/a', '.h/', '.h/a'],          # several prunable sibling directories
]


def tree_of(v):
    return fsx.from_desc(v['input']['tree'])
