"""Language comparison between two implementation matchers (or matcher vs automaton) with conformance replay."""
import itertools

from . import impl, alphabet, product, sre_aut


class Cmp:
    __slots__ = ('states', 'transitions', 'witness', 'accs', 'mode', 'traces', 'divergence')

    def __init__(self):
        self.states = self.transitions = self.traces = 0
        self.witness = None
        self.accs = None
        self.mode = 'aut'
        self.divergence = None


def real_accepts(wr, text):
    """What the library's matcher object computes for non-REALPATH matching, through its public .match()."""
    return bool(wr.match(text))


def regex_accepts(wr, text):
    wr = impl.wcregexp(wr)
    if not text:
        # WcRegexp.match returns False for empty names; compare on the regex level
        pass
    return any(r.fullmatch(text) for r in wr._include) and not any(r.fullmatch(text) for r in (wr._exclude or ()))


def equal(wr1, wr2, is_bytes=False, nonempty_only=True, conform=True, fallback_len=5, apply_check=True):
    """Decide L(wr1) == L(wr2) on all (non-empty) names.  Returns Cmp; .witness is a shortest differing name."""
    r = Cmp()
    w1, w2 = impl.wcregexp(wr1), impl.wcregexp(wr2)
    try:
        i1, e1 = impl.nfas(w1)
        i2, e2 = impl.nfas(w2)
        al = alphabet.minterms(impl.atoms(i1 + e1 + i2 + e2), is_bytes)
        a1 = impl.automaton(i1, e1, al)
        a2 = impl.automaton(i2, e2, al)
    except sre_aut.Unsupported:
        return _fallback(r, w1, w2, is_bytes, fallback_len, nonempty_only)

    def check(accs, w):
        if accs[0] != accs[1] and (w or not nonempty_only):
            return 'diff'
        return None

    r.states, r.transitions, seen, bad = product.explore([a1, a2], len(al), check)
    if conform:
        # every explored state is replayed on the real regexes (binds the translation to CPython's engine)
        for P, w in seen.items():
            t = alphabet.to_text(w, al, is_bytes)
            ra = (regex_accepts(w1, t), regex_accepts(w2, t))
            ma = (a1.accepting(P[0]), a2.accepting(P[1]))
            r.traces += 1
            if ra != ma:
                r.divergence = (t, ra, ma)
                return _fallback(r, w1, w2, is_bytes, fallback_len, nonempty_only)
    if bad:
        tag, w, accs = min(bad, key=lambda b: (len(b[1]), b[1]))
        r.witness = alphabet.to_text(w, al, is_bytes)
        r.accs = accs
        return r
    if conform and apply_check:
        # the matcher *objects* apply their regex lists as "some inclusion matches the whole name and no exclusion
        # matches the whole name": every witness, and every witness followed by a newline (the one place where
        # match() and fullmatch() of a `$`-terminated regex differ), through the public .match()
        nl = b'\n' if is_bytes else '\n'
        for P, w in seen.items():
            if not w:
                continue
            t0 = alphabet.to_text(w, al, is_bytes)
            for t in (t0, t0 + nl):
                truth = (regex_accepts(w1, t), regex_accepts(w2, t))
                r.traces += 2
                try:
                    real = (real_accepts(wr1, t), real_accepts(wr2, t))
                except Exception:  # noqa: BLE001 - callers that pass special objects
                    return r
                if real != truth:
                    r.mode = 'application'
                    r.witness = t
                    r.accs = (real[0], truth[1]) if real[0] != truth[0] else (truth[0], real[1])
                    if r.accs[0] == r.accs[1]:
                        r.accs = (real[0], truth[0]) if real[0] != truth[0] else (truth[1], real[1])
                    return r
    return r


def _fallback(r, w1, w2, is_bytes, n, nonempty_only):
    r.mode = 'fallback'
    chars = [0x61, 0x62, 0x2e, 0x2f, 0x0a, 0x41, 0x5c]
    for L in range(1 if nonempty_only else 0, n + 1):
        for tup in itertools.product(chars, repeat=L):
            t = bytes(tup) if is_bytes else ''.join(map(chr, tup))
            r.traces += 1
            a, b = regex_accepts(w1, t), regex_accepts(w2, t)
            if a != b:
                r.witness = t
                r.accs = (a, b)
                return r
    return r
