"""Known findings: committed list + pure classifier predicates over individual violating cases (DESIGN 2.5).

known_findings.json is never written at run time.  A `finding` entry names a classifier function in this module;
a violating case that no classifier accepts is reported as a VIOLATION.  `fixed` entries suppress nothing.
"""
import json
import os

_HERE = os.path.dirname(os.path.dirname(os.path.abspath(__file__)))
_PATH = os.path.join(_HERE, 'known_findings.json')
_cache = None

CLASSIFIERS = {}


def classifier(name):
    def deco(fn):
        CLASSIFIERS[name] = fn
        return fn
    return deco


def load():
    """Return {finding id: entry} for entries of kind 'finding'."""
    global _cache
    if _cache is None:
        try:
            with open(_PATH) as f:
                data = json.load(f)
        except FileNotFoundError:
            data = {'findings': [], 'fixed': []}
        _cache = {e['id']: e for e in data.get('findings', [])}
    return _cache


def classify(prop_id, v):
    """Return the id of the known finding that explains violation `v`, or None."""
    for fid, e in load().items():
        if prop_id not in e.get('properties', [e.get('property')]):
            continue
        fn = CLASSIFIERS.get(e['classifier'])
        if fn is None:
            continue
        try:
            if fn(v, e.get('params', {})):
                return fid
        except Exception:  # a classifier must never hide a violation by crashing
            continue
    return None
