"""Known findings: committed list + pure classifier predicates over individual violating cases (DESIGN 2.5).

known_findings.json is never written at run time.  A `finding` entry names a classifier function in this module;
a violating case that no classifier accepts is reported as a VIOLATION.  `fixed` entries suppress nothing.
"""
import json
import os

_HERE = os.path.dirname(os.path.dirname(os.path.abspath(__file__)))
_PATH = os.path.join(_HERE, 'known_findings.json')
_cache = None

CLASSIFIERS = {}


def classifier(name):
    def deco(fn):
        CLASSIFIERS[name] = fn
        return fn
    return deco


def load():
    """Return {finding id: entry} for entries of kind 'finding'."""
    global _cache
    if _cache is None:
        try:
            with open(_PATH) as f:
                data = json.load(f)
        except FileNotFoundError:
            data = {'findings': [], 'fixed': []}
        _cache = {e['id']: e for e in data.get('findings', [])}
    return _cache


def classify(prop_id, v):
    """Return the id of the known finding that explains violation `v`, or None."""
    for fid, e in load().items():
        if prop_id not in e.get('properties', [e.get('property')]):
            continue
        fn = CLASSIFIERS.get(e['classifier'])
        if fn is None:
            continue
        try:
            if fn(v, e.get('params', {})):
                return fid
        except Exception:  # a classifier must never hide a violation by crashing
            continue
    return None


# ---------------------------------------------------------------- helpers over pattern ASTs

def _ast(v):
    import ast as _a
    a = v.get('ast')
    return _a.literal_eval(a) if a else None


def _first_repeat_wild(seq, in_repeat=False, pol=1, out=None, dots=False):
    """Polarities (+1 plain, -1 under a negated group) with which the first position of the sequence reaches a
    wildcard that sits inside a repeated (* or +) group."""
    if out is None:
        out = set()
    if not seq:
        return out
    nd = seq[0]
    if nd[0] in ('star', 'q', 'br') or (dots and nd[0] == 'lit' and nd[1] == '.'):
        if in_repeat:
            out.add(pol)
    elif nd[0] == 'ext':
        rep = in_repeat or nd[1] in '*+'
        p2 = -pol if nd[1] == '!' else pol
        for a in nd[2]:
            _first_repeat_wild(a, rep, p2, out, dots)
    return out


@classifier('repdot')
def _repdot(v, params):
    """REPDOT: the segment-start guards of a wildcard that opens a repeated group are re-applied on every iteration:
    without DOTMATCH names/segments with an *interior* dot are rejected; in path mode with DOTGLOB the `.`/`..` guard
    rejects segments that merely end in '.' (accepted instead of rejected under a negated group)."""
    if v['kind'] not in ('lang', 'refused'):
        return False
    inp = v['input']
    fl = inp['flags']
    if 'E' not in fl:
        return False
    name = _name(v)
    seq = _ast(v)
    if seq is None or not name:
        return False
    zmode = v['kind'] == 'refused' and 'Z' in fl and inp.get('mode') == 'glob'
    path = any(nd[0] == 'sep' for nd in seq) or inp.get('mode') in ('path', 'glob') or v.get('path')
    segs_n = [x for x in name.replace('\\', '/').split('/') if x] if (path or '/' in name) else [name]
    import re as _re
    ends_dots = any(_re.search(r'(?s).\.{1,2}\n?$', x) for x in segs_n)
    # an interior dot; for C03's "refused" cases the segment may itself start with a (written, accepted) dot
    interior = any('.' in x[1:] and (x[:1] != '.' or v['kind'] == 'refused') for x in segs_n)
    if 'D' in fl:
        if not ends_dots:
            return False
    elif not (interior or (zmode and ends_dots)):
        return False
    pols = set()
    cur = []
    for nd in list(seq) + [('sep', 1, False)]:
        if nd[0] == 'sep':
            pols |= _first_repeat_wild(tuple(cur), dots=zmode)
            cur = []
        else:
            cur.append(nd)
    obs, exp = v['observed'].get('match'), v['expected'].get('match')
    if obs is False and exp is True:
        return 1 in pols
    if obs is True and exp is False:
        return -1 in pols
    return False


def _segment_of(seq, inp):
    return seq


def _name(v):
    n = v['input'].get('name')
    if isinstance(n, dict):
        n = n['__bytes__']
    return n


@classifier('nldiv')
def _nldiv(v, params):
    """NLDIV: `$` inside _GLOBSTAR_DIV also holds just before a final newline, so after a globstar (written, or the
    implicit MATCHBASE prefix) the rest of the pattern may match a trailing '\\n' as if it were a segment of its own."""
    if v['kind'] != 'lang':
        return False
    inp = v['input']
    name = _name(v)
    fl = inp['flags']
    if not name or name[-1] != '\n' or len(name) < 2 or name[-2] in '/\\':
        return False
    has_g = ('X' in fl) or (('G' in fl or 'L' in fl) and '**' in inp['pattern'])
    if not has_g:
        return False
    obs, exp = v['observed'].get('match'), v['expected'].get('match')
    if obs == exp:
        return False
    # the pattern tail really treats the final newline as its own segment: inserting a separator changes nothing
    try:
        from wcmatch import glob as G
        from .props.c02 import flags_of
        alt = G.globmatch(name[:-1] + '/' + '\n', inp['pattern'], flags=flags_of(fl))
    except Exception:
        return False
    return alt == obs


@classifier('nldir')
def _nldir(v, params):
    """NLDIR: `$` inside _NO_DIR (the guard keeping wildcards off `.`/`..`) also holds before a final newline, so a
    last segment '.\\n' or '..\\n' is treated like '.'/'..' by wildcards."""
    if v['kind'] not in ('lang', 'leak'):
        return False
    name = _name(v)
    if not name:
        return False
    seg = name.replace('\\', '/').rsplit('/', 1)[-1]
    if seg not in ('.\n', '..\n'):
        return False
    obs, exp = v['observed'].get('match'), v['expected'].get('match')
    if v['kind'] == 'leak':
        # C03 sees the same thing through a negated group: `!(*|.)` accepts '.\n' because the `*` inside refuses it;
        # only when no *other* segment of the name is special
        others = name.replace('\\', '/').split('/')[:-1]
        seq = _ast(v)
        return '!(' in v['input']['pattern'] and seq is not None and \
            (not any(x in ('.', '..') for x in others) or _others_written(seq, others))
    if obs is False and exp is True:
        return True
    return '!(' in v['input']['pattern'] and obs is True and exp is False


def _others_written(seq, others):
    """The special segments among `others` stand opposite pattern segments that can match them with written dots."""
    segs = _segments(seq)
    if len(segs) != len(others) + 1 or any(nd[0] == 'star' and nd[1] >= 2 for nd in seq):
        return False

    def has_written(sg, n):
        # a literal alternative / literal run spelling exactly n
        def texts(s):
            outs = ['']
            for nd in s:
                if nd[0] == 'lit':
                    outs = [o + nd[1] for o in outs]
                elif nd[0] == 'ext' and nd[1] in '@?+*':
                    alts = []
                    for a in nd[2]:
                        alts += texts(a)
                    outs = [o + a for o in outs for a in alts if a is not None]
                else:
                    return [None]
            return outs
        return n in [t for t in texts(sg) if t is not None]
    return all(has_written(sg, n) for sg, n in zip(segs, others) if n in ('.', '..'))


def _nullable(seq):
    for nd in seq:
        if nd[0] == 'star':
            continue
        if nd[0] == 'ext':
            if nd[1] in '?*!':
                continue
            if any(_nullable(a) for a in nd[2]):
                continue
        return False
    return True


def _nullstart(seq, path, passed=False, groups_only=False, zmode=False):
    """Is there, at the start of this segment, a wildcard that can consume the first character although it stands
    behind constructs that matched the empty string (so it carries no dot guard)?

    groups_only: only a nullable *group* counts as such a prefix (a leading star keeps its unconditional guard)."""
    for nd in seq:
        k = nd[0]
        if k in ('q', 'br'):
            return passed
        if k == 'star':
            if passed:
                return True
            if path and not groups_only:
                passed = True       # the guarded path star is optional: (?:(?!\.)[^/]*?)?
                continue
            return False
        if k == 'ext':
            if nd[1] == '!':
                if passed:
                    return True
                if path and not groups_only:
                    passed = True
                    continue
                return False
            for a in nd[2]:
                if _nullstart(a, path, passed, groups_only, zmode):
                    return True
            if nd[1] in '?*' or any(_nullable(a) for a in nd[2]):
                passed = True
                continue
            return False
        if zmode and passed and k == 'lit' and nd[1] == '.':
            # NODOTDIR: a written dot behind a nullable group is not analysed by _handle_dot (after_start was reset)
            return True
        return False
    return False


def _segments(seq):
    cur = []
    out = []
    for nd in seq:
        if nd[0] == 'sep':
            out.append(tuple(cur))
            cur = []
        else:
            cur.append(nd)
    out.append(tuple(cur))
    return [s for s in out if s]


@classifier('nullstart')
def _nullstart_cls(v, params):
    """NULLSTART: a wildcard preceded in its segment only by constructs that matched the empty string carries no dot
    guard and consumes a leading dot (`?(x)*`, `*(a)?`; in path mode also `*?a`, `*[!b]a`, `!(a)?` because the guarded
    path star is optional)."""
    if v['kind'] != 'leak':
        return False
    inp = v['input']
    if v['observed'].get('match') is not True:
        return False
    seq = _ast(v)
    if seq is None:
        return False
    path = inp.get('mode') == 'glob'
    groups_only = 'D' in inp['flags']
    zmode = 'Z' in inp['flags']
    return any(_nullstart(sg, path, False, groups_only and not zmode, zmode) for sg in _segments(seq))


def _starts_with_dot(alt):
    """The alternative begins with a written dot, directly or as the beginning of a group that begins it."""
    if not alt:
        return False
    nd = alt[0]
    if nd[0] == 'lit':
        return nd[1] == '.'
    if nd[0] == 'ext':
        return any(_starts_with_dot(a) for a in nd[2])
    return False


def _neg_has_dot_alt(seq):
    for nd in seq:
        if nd[0] == 'ext':
            if nd[1] == '!' and any(_starts_with_dot(a) for a in nd[2]):
                return True
            if any(_neg_has_dot_alt(a) for a in nd[2]):
                return True
    return False


@classifier('negdotdir')
def _negdotdir(v, params):
    """NEGDOTDIR: under DOTGLOB a !(...) whose list contains an alternative beginning with a written dot is compiled
    with the unguarded star (match_dot_dir) and matches the segments . and .. (intended upstream: tests/test_globmatch.py
    expects `!(.)` to match `..` with DOTGLOB)."""
    if v['kind'] != 'leak':
        return False
    inp = v['input']
    if inp.get('mode') != 'glob' or 'D' not in inp['flags'] or 'Z' in inp['flags']:
        return False
    name = _name(v)
    if not any(x in ('.', '..') for x in name.split('/')):
        return False
    seq = _ast(v)
    if seq is None or not _neg_has_dot_alt(seq):
        return False
    # where pattern and name segments can be aligned one to one (no globstar, same number of segments), some special
    # segment of the name must stand opposite a pattern segment that holds such a negated group: special segments
    # matched only by *other* segments of the pattern are not this finding
    segs = _segments(seq)
    nsegs = [x for x in name.split('/') if x]
    if len(segs) == len(nsegs) and not any(nd[0] == 'star' and nd[1] >= 2 for nd in seq) and 'X' not in inp['flags'] \
            and 'B' not in inp['flags']:
        return any(_neg_has_dot_alt(sg) for sg, n in zip(segs, nsegs) if n in ('.', '..'))
    return True


def _group_alt_ends_dot(seq):
    for i, nd in enumerate(seq):
        if nd[0] == 'ext':
            if any(a and a[-1][0] == 'lit' and a[-1][1] == '.' for a in nd[2]) and i + 1 < len(seq):
                return True
            if any(_group_alt_ends_dot(a) for a in nd[2]):
                return True
    return False


@classifier('zgroup')
def _zgroup(v, params):
    """ZGROUP: under NODOTDIR the look-ahead of _handle_dot that decides whether a written dot starts a literal `.`/`..`
    segment stops at the end of a group alternative, so `+(.)?` or `@(.).` still match `..`."""
    if v['kind'] != 'leak':
        return False
    inp = v['input']
    if inp.get('mode') != 'glob' or 'Z' not in inp['flags']:
        return False
    name = _name(v)
    if not any(x in ('.', '..') for x in name.split('/')):
        return False
    seq = _ast(v)
    return seq is not None and any(_group_alt_ends_dot(sg) for sg in _segments(seq))


# ---------------------------------------------------------------- file-system findings (C05 and friends)

def _hidden_comp(p):
    return any(c.startswith('.') for c in p.split('/') if c)


def _fs_extra_only_hidden(v):
    obs = v['observed']
    if v['kind'] == 'globmatch-vs-reference':
        obs = {'missing': obs.get('wrongly_rejected'), 'extra': obs.get('wrongly_accepted')}
    if obs.get('missing'):
        return False
    ex = obs.get('extra') or []
    return bool(ex) and all(_hidden_comp(p) for p in ex)


@classifier('nullstart_fs')
def _nullstart_fs(v, params):
    """NULLSTART seen through glob(): extra results, all with a hidden / special component, from a pattern in which a
    wildcard stands behind constructs that matched the empty string."""
    if v['kind'] not in ('glob-vs-reference', 'glob-vs-bash', 'pathlib-vs-reference', 'globmatch-vs-reference'):
        return False
    if v['kind'] == 'pathlib-vs-reference':
        # pathlib normalises './a' to 'a': only require that nothing is missing
        if v['observed'].get('missing') or not v['observed'].get('extra'):
            return False
    elif not _fs_extra_only_hidden(v):
        return False
    seq = _ast(v)
    if seq is None:
        return False
    fl = v['input']['flags']
    zmode = 'Y' not in fl or 'Z' in fl      # glob() forces NODOTDIR unless SCANDOTDIR
    groups_only = 'D' in fl
    return any(_nullstart(sg, True, False, groups_only and not zmode, zmode) for sg in _segments(seq))


def _star_then_dot(seg):
    return len(seg) >= 2 and seg[0][0] == 'star' and seg[1][0] == 'lit' and seg[1][1] == '.'


@classifier('dotstar')
def _dotstar(v, params):
    """DOTSTAR: the guarded path star is optional, so `*.h` also returns `.h` (Bash does not)."""
    if v['kind'] != 'glob-vs-bash' or not _fs_extra_only_hidden(v):
        return False
    if 'D' in v['input']['flags']:
        return False
    seq = _ast(v)
    return seq is not None and any(_star_then_dot(sg) for sg in _segments(seq))


@classifier('ambig_realpath')
def _ambig(v, params):
    """AMBIG: REALPATH matching inspects only the first way the regex matched; when a path can be split between `**`
    and explicit segments in several ways and the first one puts a directory symlink under `**`, globmatch rejects a
    path that glob returns through another split."""
    if v['kind'] not in ('glob-vs-globmatch', 'globmatch-vs-reference'):
        return False
    obs = v['observed']
    if v['kind'] == 'globmatch-vs-reference':
        obs = {'only_glob': obs.get('wrongly_rejected'), 'only_globmatch': obs.get('wrongly_accepted')}
    if obs.get('only_globmatch') or not obs.get('only_glob'):
        return False
    inp = v['input']
    pats = inp.get('patterns', inp.get('pattern'))
    pats = pats if isinstance(pats, list) else [pats]
    if not any('**' in p and '/' in p.replace('**', '', 1).strip('/') or p.count('**') > 1 for p in pats):
        return False
    from . import fsx
    model = fsx.Model(fsx.from_desc(inp['tree']))
    for p in obs['only_glob']:
        comps = [c for c in p.split('/') if c]
        if not any(model.islink('/'.join(comps[:i])) and model.isdir('/'.join(comps[:i])) for i in range(1, len(comps))):
            return False
    return True


@classifier('winseq')
def _winseq(v, params):
    """WINSEQ: in fnmatch mode under Windows rules a bracket expression tells `/` from `\\`: `[/]` matches only the
    slash and a range such as `[A-b]` contains only the backslash, so the two separators are not interchangeable
    in the name at a position matched by such a bracket."""
    if v['kind'] not in ('sepclose', 'winunix'):
        return False
    inp = v['input']
    if inp.get('mode') != 'fn' or 'W' not in inp.get('flags', ''):
        return False
    import re as _re
    for m in _re.finditer(r'\[(!|\^)?((?:[^\]\\]|\\.)+)\]', inp['pattern']):
        body = m.group(2)
        cps = set()
        i = 0
        chars = []
        both = False
        while i < len(body):
            if body[i] == '\\' and i + 1 < len(body):
                if body[i + 1] == '\\':
                    # an *escaped backslash* is a separator and does stand for both (this works; not part of the finding)
                    both = True
                else:
                    chars.append(body[i + 1])
                i += 2
            else:
                chars.append(body[i])
                i += 1
        if both:
            cps.update((0x2f, 0x5c))
        j = 0
        while j < len(chars):
            if j + 2 < len(chars) and chars[j + 1] == '-':
                cps.update(range(ord(chars[j]), ord(chars[j + 2]) + 1))
                j += 3
            else:
                cps.add(ord(chars[j]))
                j += 1
        if (0x2f in cps) != (0x5c in cps):
            return True
    return False


@classifier('uncshort')
def _uncshort(v, params):
    """UNCSHORT: `//?/UNC` or `//./UNC` (also behind `GLOBAL/`) followed by fewer than the two components (server, share)
    a UNC drive needs: escape() and is_magic() take it for a drive and leave its metacharacters alone, the pattern
    parser does not, so `?` is a wildcard and the leading separators merge."""
    if v['kind'] not in ('drive-escape-accepts-other', 'drive-escape-rejects-self', 'escape', 'nonmagic'):
        return False
    inp = v['input']
    if inp.get('mode') != 'glob' or inp.get('plat') != 'W':
        return False
    import re as _re
    return _re.match(r'(?i)^[\\/]{2}[?.][\\/](?:global[\\/])*unc(?:[\\/][^\\/]*)?[\\/]?$', inp['s']) is not None
