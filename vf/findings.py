"""Known findings: committed list + pure classifier predicates over individual violating cases (DESIGN 2.5).

known_findings.json is never written at run time.  A `finding` entry names a classifier function in this module;
a violating case that no classifier accepts is reported as a VIOLATION.  `fixed` entries suppress nothing.
"""
import json
import os

_HERE = os.path.dirname(os.path.dirname(os.path.abspath(__file__)))
_PATH = os.path.join(_HERE, 'known_findings.json')
_cache = None

CLASSIFIERS = {}


def classifier(name):
    def deco(fn):
        CLASSIFIERS[name] = fn
        return fn
    return deco


def load():
    """Return {finding id: entry} for entries of kind 'finding'."""
    global _cache
    if _cache is None:
        try:
            with open(_PATH) as f:
                data = json.load(f)
        except FileNotFoundError:
            data = {'findings': [], 'fixed': []}
        _cache = {e['id']: e for e in data.get('findings', [])}
    return _cache


def classify(prop_id, v):
    """Return the id of the known finding that explains violation `v`, or None."""
    for fid, e in load().items():
        if prop_id not in e.get('properties', [e.get('property')]):
            continue
        fn = CLASSIFIERS.get(e['classifier'])
        if fn is None:
            continue
        try:
            if fn(v, e.get('params', {})):
                return fid
        except Exception:  # a classifier must never hide a violation by crashing
            continue
    return None


# ---------------------------------------------------------------- helpers over pattern ASTs

def _ast(v):
    import ast as _a
    a = v.get('ast')
    return _a.literal_eval(a) if a else None


def _first_repeat_wild(seq, in_repeat=False, pol=1, out=None):
    """Polarities (+1 plain, -1 under a negated group) with which the first position of the sequence reaches a
    wildcard that sits inside a repeated (* or +) group."""
    if out is None:
        out = set()
    if not seq:
        return out
    nd = seq[0]
    if nd[0] in ('star', 'q', 'br'):
        if in_repeat:
            out.add(pol)
    elif nd[0] == 'ext':
        rep = in_repeat or nd[1] in '*+'
        p2 = -pol if nd[1] == '!' else pol
        for a in nd[2]:
            _first_repeat_wild(a, rep, p2, out)
    return out


@classifier('repdot')
def _repdot(v, params):
    """REPDOT: the no-leading-dot guard of a wildcard that opens a repeated group is re-applied on every iteration,
    so names with an *interior* dot are rejected (accepted, under a negated group) when DOTMATCH is off."""
    if v['kind'] != 'lang':
        return False
    inp = v['input']
    if 'D' in inp['flags'] or 'E' not in inp['flags']:
        return False
    name = inp['name']
    if isinstance(name, dict):
        name = name['__bytes__']
    if '.' not in name[1:] or name[:1] == '.':
        return False
    seq = _ast(v)
    if seq is None:
        return False
    pols = _first_repeat_wild(_segment_of(seq, inp))
    obs, exp = v['observed'].get('match'), v['expected'].get('match')
    if obs is False and exp is True:
        return 1 in pols
    if obs is True and exp is False:
        return -1 in pols
    return False


def _segment_of(seq, inp):
    return seq
