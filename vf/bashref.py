"""Bash 5.2 pathname expansion as a second oracle for glob() on the shared fragment (DESIGN 4.2 #2)."""
import os
import subprocess

BASH = '/usr/bin/bash'

SCRIPT = r'''
shopt -s extglob nullglob
%s
IFS=
cd -- "$1" || exit 3
while IFS= read -r -d '' pat; do
  for x in $pat; do
    if [[ -e $x || -L $x ]]; then printf '%%s\0' "$x"; fi
  done
  printf '\1\0'
done
'''


def available():
    return os.path.exists(BASH)


def bash_glob(root, patterns, globstar=True, dotglob=False, skipdots=True):
    """Expand every pattern in `root`; returns a list (one per pattern) of result lists."""
    opts = []
    opts.append('shopt -s globstar' if globstar else 'shopt -u globstar')
    opts.append('shopt -s dotglob' if dotglob else 'shopt -u dotglob')
    opts.append('shopt -s globskipdots' if skipdots else 'shopt -u globskipdots')
    script = SCRIPT % '\n'.join(opts)
    data = b''.join(p.encode() + b'\0' for p in patterns)
    env = {'LC_ALL': 'C', 'PATH': '/usr/bin:/bin'}
    r = subprocess.run([BASH, '--norc', '--noprofile', '-c', script, 'bash', root], input=data, capture_output=True,
                       env=env, timeout=120)
    if r.returncode != 0:
        raise RuntimeError('bash failed: %r' % r.stderr[-300:])
    out = []
    cur = []
    for tok in r.stdout.split(b'\0')[:-1]:
        if tok == b'\1':
            out.append(cur)
            cur = []
        else:
            cur.append(tok.decode())
    if len(out) != len(patterns):
        raise RuntimeError('bash output misaligned: %d vs %d' % (len(out), len(patterns)))
    return out


MATCH_SCRIPT = r'''
shopt -s extglob
names=()
while IFS= read -r -d '' n; do
  [[ $n == $'\1' ]] && break
  names+=("$n")
done
while IFS= read -r -d '' pat; do
  out=""
  for n in "${names[@]}"; do
    if [[ $n == $pat ]]; then out+="1"; else out+="0"; fi
  done
  printf '%s\0' "$out"
done
'''


def bash_match(patterns, names):
    """[[ name == pattern ]] (extglob) for every pattern x name; returns list of strings of 0/1 per pattern."""
    data = b''.join(n.encode() + b'\0' for n in names) + b'\1\0' + b''.join(p.encode() + b'\0' for p in patterns)
    r = subprocess.run([BASH, '--norc', '--noprofile', '-c', MATCH_SCRIPT], input=data, capture_output=True,
                       env={'LC_ALL': 'C', 'PATH': '/usr/bin:/bin'}, timeout=300)
    if r.returncode != 0:
        raise RuntimeError('bash failed: %r' % r.stderr[-300:])
    out = [x.decode() for x in r.stdout.split(b'\0')[:-1]]
    if len(out) != len(patterns):
        raise RuntimeError('bash output misaligned: %d vs %d' % (len(out), len(patterns)))
    return out
