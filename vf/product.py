"""Explicit-state exploration of product automata (DESIGN 3.4).

Automaton protocol: .init, .step(state, class_index) -> state, .accepting(state) -> bool.
All automata of a product read the subject right-to-left over the same class alphabet.
"""


class Union:
    def __init__(self, auts):
        self.auts = list(auts)
        self.init = tuple(a.init for a in self.auts)

    def step(self, S, ci):
        return tuple(a.step(s, ci) for a, s in zip(self.auts, S))

    def accepting(self, S):
        for a, s in zip(self.auts, S):
            if a.accepting(s):
                return True
        return False


class Diff:
    """include minus exclude (what _Match.match computes from the include/exclude regex tuples)."""

    def __init__(self, inc, exc):
        self.inc = inc
        self.exc = exc
        self.init = (inc.init, exc.init)

    def step(self, S, ci):
        return (self.inc.step(S[0], ci), self.exc.step(S[1], ci))

    def accepting(self, S):
        return self.inc.accepting(S[0]) and not self.exc.accepting(S[1])


class Const:
    def __init__(self, value):
        self.value = value
        self.init = 0

    def step(self, S, ci):
        return 0

    def accepting(self, S):
        return self.value


class Table:
    """Explicit DFA: rows[state][class] -> state; acc = set of accepting states."""

    def __init__(self, rows, init, acc):
        self.rows = rows
        self.init = init
        self.acc = acc

    def step(self, S, ci):
        return self.rows[S][ci]

    def accepting(self, S):
        return S in self.acc


def explore(auts, nsym, check, max_states=200000):
    """BFS over the reachable product states.

    auts: list of automata; nsym: number of alphabet classes; check(accs tuple, state) -> None or a tag (violation).
    Returns (n_states, n_transitions, witnesses) where witnesses = {state: tuple of class indices in reading order}
    and bad = list of (tag, witness indices, accs).
    """
    init = tuple(a.init for a in auts)
    seen = {init: ()}
    frontier = [init]
    trans = 0
    k = len(auts)
    rng = range(nsym)
    while frontier:
        nxt = []
        for P in frontier:
            w = seen[P]
            for ci in rng:
                T = tuple(auts[j].step(P[j], ci) for j in range(k))
                trans += 1
                if T not in seen:
                    seen[T] = (ci,) + w
                    nxt.append(T)
        if len(seen) > max_states:
            raise OverflowError('product too large')
        frontier = nxt
    bad = []
    for P, w in seen.items():
        accs = tuple(auts[j].accepting(P[j]) for j in range(k))
        tag = check(accs, w)
        if tag:
            bad.append((tag, w, accs))
    return len(seen), trans, seen, bad


def explore_rel(auts, letters, check, max_states=200000):
    """Relational product: `letters` is a list of tuples (one class index per automaton) that may be read together.

    Witness for a state is a tuple of per-automaton index tuples.
    """
    init = tuple(a.init for a in auts)
    k = len(auts)
    seen = {init: tuple(() for _ in range(k))}
    frontier = [init]
    trans = 0
    while frontier:
        nxt = []
        for P in frontier:
            w = seen[P]
            for lt in letters:
                T = tuple(auts[j].step(P[j], lt[j]) for j in range(k))
                trans += 1
                if T not in seen:
                    seen[T] = tuple((lt[j],) + w[j] for j in range(k))
                    nxt.append(T)
        if len(seen) > max_states:
            raise OverflowError('product too large')
        frontier = nxt
    bad = []
    for P, w in seen.items():
        accs = tuple(auts[j].accepting(P[j]) for j in range(k))
        tag = check(accs, w)
        if tag:
            bad.append((tag, w, accs))
    return len(seen), trans, seen, bad
