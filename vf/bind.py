"""Bind the harness to the repository under test (DESIGN 2.1)."""
import os
import sys

REPO = os.path.abspath(os.environ.get('VERIF_REPO', '/repo'))
VERIF = os.path.dirname(os.path.dirname(os.path.abspath(__file__)))

os.environ.setdefault('PYTHONDONTWRITEBYTECODE', '1')
sys.dont_write_bytecode = True
# the guard named in MANIFEST.hooks; no source hook exists today, all seams are external
os.environ.setdefault('WCMATCH_VERIF', '1')

if REPO not in sys.path[:1]:
    sys.path.insert(0, REPO)

import wcmatch  # noqa: E402

_where = os.path.abspath(wcmatch.__file__)
if not _where.startswith(REPO + os.sep):
    sys.stderr.write('HARNESS-ERROR: wcmatch imported from %s, expected under %s\n' % (_where, REPO))
    sys.exit(2)

from wcmatch import fnmatch, glob, _wcparse, _wcmatch, util, wcmatch as wcm, pathlib as wpathlib  # noqa: E402,F401


def scratch_base():
    """Directory for scratch trees: /dev/shm if writable, else TMPDIR."""
    for d in (os.environ.get('VERIF_SCRATCH'), '/dev/shm', os.environ.get('TMPDIR'), '/tmp'):
        if d and os.path.isdir(d) and os.access(d, os.W_OK):
            return d
    return '.'


def clear_caches():
    import re
    _wcparse._compile.cache_clear()
    re.purge()
