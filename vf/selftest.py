"""Self-conformance of the regex->automaton translation against CPython's engine (DESIGN 3.1)."""
import itertools
import re
import sys
import time

from . import bind, sre_aut, alphabet, impl, product  # noqa: F401
from wcmatch import glob as G, fnmatch as F, _wcparse as W


def conformance(maxlen=5):
    pats = ['*', '**', '**/a', 'a/**/b', '!(a)', '!(a|b)c', '+(a|!(b))', '*(!(a))', '!(!(a))', '.*/a', '@(a/b|c)',
            '*?a', '?(x)*', '**/.a/*', 'a/', '[!b]*', '*/*/*', '[[:alpha:]]x', '[a-c]*', '.', '..', '***/a',
            '[]a]', '[^a-]', 'a\\/b', '?', '+(?)', 'A*', '@(A|b)']
    flagsets = [G.E | G.G, G.E | G.G | G.D, G.E | G.G | G.X, G.E | G.G | G.Z | G.P, G.E | G.GL | G.I,
                G.E | G.G | G.W, G.E | G.G | G.O]
    total = bad = 0
    t0 = time.time()
    for is_bytes in (False, True):
        for flags in flagsets:
            for p in pats:
                pat = p.encode() if is_bytes else p
                wr = W.compile(pat, G._flag_transform(flags))
                inc, exc = impl.nfas(wr)
                al = alphabet.minterms(impl.atoms(inc + exc), is_bytes)
                aut = impl.automaton(inc, exc, al)
                for L in range(0, maxlen + 1 if len(al) <= 6 else maxlen):
                    for tup in itertools.product(range(len(al)), repeat=L):
                        s = alphabet.to_text(tup, al, is_bytes)
                        S = aut.init
                        for ci in reversed(tup):
                            S = aut.step(S, ci)
                        a = aut.accepting(S)
                        m = any(r.fullmatch(s) for r in wr._include) and not any(r.fullmatch(s) for r in wr._exclude or ())
                        total += 1
                        if a != m:
                            bad += 1
                            if bad < 20:
                                print('MISMATCH', flags, repr(pat), repr(s), 'aut', a, 're', m, [r.pattern for r in wr._include])
    print('conformance strings', total, 'bad', bad, 'time %.1fs' % (time.time() - t0))
    return bad


if __name__ == '__main__':
    sys.exit(1 if conformance(int(sys.argv[1]) if len(sys.argv) > 1 else 5) else 0)
