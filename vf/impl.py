"""Implementation automata: built from the regex objects the library actually executes (DESIGN 3.1)."""
import re

from . import sre_aut, product

_nfa_cache = {}
_dfa_cache = {}


def wcregexp(obj):
    """WcMatcher -> WcRegexp (the object whose _include/_exclude tuples are fullmatch'ed)."""
    return getattr(obj, '_matcher', obj)


def nfa(rx):
    """rx: compiled re.Pattern, or (source, flags)."""
    if isinstance(rx, re.Pattern):
        key = (rx.pattern, rx.flags & (re.I | re.S | re.M | re.X | re.A | re.L))
    else:
        key = (rx, 0)
    n = _nfa_cache.get(key)
    if n is None:
        if len(_nfa_cache) > 50000:
            _nfa_cache.clear()
        n = _nfa_cache[key] = sre_aut.SreNFA(key[0], key[1])
    return n


def nfas(wr):
    wr = wcregexp(wr)
    return [nfa(r) for r in wr._include], [nfa(r) for r in (wr._exclude or ())]


def atoms(nfalist):
    out = []
    for n in nfalist:
        out.extend(n.atoms)
    return out


def dfa(n, alphabet):
    key = (id(n), tuple(alphabet))
    d = _dfa_cache.get(key)
    if d is None or d.nfa is not n:
        if len(_dfa_cache) > 20000:
            _dfa_cache.clear()
        d = _dfa_cache[key] = sre_aut.BackDFA(n, alphabet)
    return d


def automaton(inc, exc, alphabet):
    """Language of 'some include fullmatches and no exclude does'."""
    i = product.Union([dfa(n, alphabet) for n in inc]) if len(inc) != 1 else dfa(inc[0], alphabet)
    if not inc:
        i = product.Const(False)
    if not exc:
        return i
    e = product.Union([dfa(n, alphabet) for n in exc]) if len(exc) != 1 else dfa(exc[0], alphabet)
    return product.Diff(i, e)


def clear():
    _nfa_cache.clear()
    _dfa_cache.clear()
