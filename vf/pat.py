"""Pattern ASTs, injective rendering and exhaustive generators (DESIGN 3.7).

Nodes (tuples):
  ('lit', ch, esc)            literal character, rendered ch or \\ch
  ('star', k)                 a run of k '*' (k>=1)
  ('q',)                      ?
  ('br', text, neg, ranges)   bracket expression; ranges = tuple of (lo, hi) code points (already the union of
                              literals, ranges and POSIX classes); text = its rendering
  ('ext', kind, alts)         extended group kind in '?*+@!'; alts = tuple of sequences (tuples of nodes)
  ('sep', n, esc)             path mode only: n separators '/' (esc: written as \\/)
A pattern is a tuple of nodes.
"""
import curses.ascii as ca
import itertools

META = set('*?[]()|!+@\\{}~-')

# ---------------------------------------------------------------- POSIX classes (C locale), independent table
_POSIX_PRED = {
    'alnum': ca.isalnum, 'alpha': ca.isalpha, 'ascii': lambda c: c < 128, 'blank': ca.isblank, 'cntrl': ca.iscntrl,
    'digit': ca.isdigit, 'graph': ca.isgraph, 'lower': ca.islower, 'print': ca.isprint, 'punct': ca.ispunct,
    'space': ca.isspace, 'upper': ca.isupper, 'word': lambda c: ca.isalnum(c) or c == 0x5f, 'xdigit': ca.isxdigit,
}


def _to_ranges(cps):
    out = []
    for c in sorted(cps):
        if out and out[-1][1] == c - 1:
            out[-1][1] = c
        else:
            out.append([c, c])
    return tuple((a, b) for a, b in out)


POSIX = {k: _to_ranges(c for c in range(128) if f(c)) for k, f in _POSIX_PRED.items()}


def lit(ch, esc=False):
    return ('lit', ch, esc)


STAR = ('star', 1)
Q = ('q',)


def br(text):
    """Build a bracket node from its text using a tiny parser for the *generated* forms only."""
    assert text[0] == '[' and text[-1] == ']'
    body = text[1:-1]
    neg = False
    if body[:1] in ('!', '^'):
        neg = True
        body = body[1:]
    ranges = []
    i = 0
    items = []   # list of code points or ('cls', name)
    first = True
    while i < len(body):
        c = body[i]
        if c == '[' and body[i + 1:i + 2] == ':':
            e = body.index(':]', i)
            items.append(('cls', body[i + 2:e]))
            i = e + 2
        elif c == '\\':
            items.append(ord(body[i + 1]))
            i += 2
        elif c == '-' and not first and i + 1 < len(body) and items and isinstance(items[-1], int) \
                and body[i + 1] != ']':
            # range
            nxt = body[i + 1]
            if nxt == '\\':
                hi = ord(body[i + 2])
                i += 3
            else:
                hi = ord(nxt)
                i += 2
            lo = items.pop()
            items.append(('rng', lo, hi))
        else:
            items.append(ord(c))
            i += 1
        first = False
    for it in items:
        if isinstance(it, int):
            ranges.append((it, it))
        elif it[0] == 'cls':
            ranges.extend(POSIX[it[1]])
        else:
            if it[1] <= it[2]:
                ranges.append((it[1], it[2]))
    return ('br', text, neg, tuple(ranges))


def render(seq):
    out = []
    for nd in seq:
        k = nd[0]
        if k == 'lit':
            out.append(('\\' if nd[2] else '') + nd[1])
        elif k == 'star':
            out.append('*' * nd[1])
        elif k == 'q':
            out.append('?')
        elif k == 'br':
            out.append(nd[1])
        elif k == 'ext':
            out.append(nd[1] + '(' + '|'.join(render(a) for a in nd[2]) + ')')
        elif k == 'sep':
            out.append(('\\/' if nd[2] else '/') * nd[1])
        else:
            raise ValueError(nd)
    return ''.join(out)


def desugar(seq):
    """Meaning without EXTMATCH: group syntax is plain characters."""
    out = []

    def emit(nd):
        if nd[0] == 'star' and out and out[-1][0] == 'star':
            out[-1] = ('star', out[-1][1] + nd[1])
        else:
            out.append(nd)

    for nd in seq:
        if nd[0] == 'ext':
            kind = nd[1]
            emit(STAR if kind == '*' else Q if kind == '?' else lit(kind))
            emit(lit('('))
            for j, a in enumerate(nd[2]):
                if j:
                    emit(lit('|'))
                for x in desugar(a):
                    emit(x)
            emit(lit(')'))
        else:
            emit(nd)
    return tuple(out)


def has_ext(seq, kinds='?*+@!'):
    for nd in seq:
        if nd[0] == 'ext':
            if nd[1] in kinds:
                return True
            if any(has_ext(a, kinds) for a in nd[2]):
                return True
    return False


def neg_ok(seq):
    """Is every !(...) in a shape C01 commits to: top level, negation-free alternatives, followed only by literals."""
    for i, nd in enumerate(seq):
        if nd[0] != 'ext':
            continue
        if nd[1] == '!':
            if any(has_ext(a, '!') for a in nd[2]):
                return False
            if any(x[0] not in ('lit',) for x in seq[i + 1:]):
                # in path mode: only literals up to the end of the segment
                rest = seq[i + 1:]
                for x in rest:
                    if x[0] == 'sep':
                        break
                    if x[0] != 'lit':
                        return False
        else:
            if any(has_ext(a, '!') for a in nd[2]):
                return False
    return True


def tokens(seq):
    n = 0
    for nd in seq:
        n += 1
        if nd[0] == 'ext':
            n += sum(tokens(a) for a in nd[2])
    return n


# ---------------------------------------------------------------- tokenizer for the generated grammar (self-test)

def retokenize(text, ext=True):
    """Re-derive a flat token list from rendered text (for the injectivity self-test)."""
    out = []
    i = 0
    n = len(text)
    while i < n:
        c = text[i]
        if ext and c in '?*+@!' and text[i + 1:i + 2] == '(':
            depth = 0
            j = i + 1
            while True:
                ch = text[j]
                if ch == '\\':
                    j += 2
                    continue
                if ch == '[':
                    j = _skip_br(text, j)
                    continue
                if ch == '(':
                    depth += 1
                elif ch == ')':
                    depth -= 1
                    if depth == 0:
                        break
                j += 1
            out.append(('ext', text[i:j + 1]))
            i = j + 1
        elif c == '\\':
            out.append(('lit', text[i + 1], True))
            i += 2
        elif c == '*':
            j = i
            while j < n and text[j] == '*':
                j += 1
            run = j - i
            if ext and text[j:j + 1] == '(':
                run -= 1   # the last star opens a *( group
            out.append(('star', run))
            i += run
        elif c == '?':
            out.append(('q',))
            i += 1
        elif c == '[':
            j = _skip_br(text, i)
            out.append(('br', text[i:j]))
            i = j
        elif c == '/':
            j = i
            while j < n and text[j] == '/':
                j += 1
            out.append(('sep', j - i))
            i = j
        else:
            out.append(('lit', c, False))
            i += 1
    return out


def _skip_br(text, i):
    j = i + 1
    if text[j:j + 1] in ('!', '^'):
        j += 1
    if text[j:j + 1] == ']':
        j += 1
    while text[j] != ']':
        if text[j] == '\\':
            j += 2
        elif text[j] == '[' and text[j + 1:j + 2] == ':':
            j = text.index(':]', j) + 2
        else:
            j += 1
    return j + 1


def flat(seq):
    out = []
    for nd in seq:
        if nd[0] == 'ext':
            out.append(('ext', render((nd,))))
        elif nd[0] == 'br':
            out.append(('br', nd[1]))
        elif nd[0] == 'sep':
            out.append(('sep', nd[1]))
        else:
            out.append(nd)
    return out


# ---------------------------------------------------------------- generators

BR_CORE = ['[ab]', '[!a]']
BR_FULL = ['[ab]', '[!a]', '[^a]', '[a-c]', '[!a-c]', '[]a]', '[a-]', '[-a]', '[.]', '[!.]', '[\\]]', '[a\\-c]',
           '[!]a]', '[a.]', '[[:alpha:]b]', '[![:upper:]]', '[[:digit:]a-c]', '[a-c[:digit:]]', '[\\a]', '[a!]',
           '[a^]', '[*?]', '[a|b]', '[(]', '[/]', '[\\/]', '[!\\/]', '[a\\/b]', '[a-\\c-+]', '[a-\\c-e]', '[!\\a-\\c-]', '[+---*]', '[!+---*]', '[%---#]', '[+--*]'] + \
    ['[[:%s:]]' % k for k in sorted(POSIX)] + ['[![:%s:]]' % k for k in ('alpha', 'space', 'punct', 'word')]
ESC_LITS = ['*', '?', '[', '\\', '(', '|', '!', ')', ']', '+', '@', '.', 'a']


def leaves(lits, brackets, esc=()):
    lv = [lit(c) for c in lits] + [STAR, Q] + [br(t) for t in brackets] + [lit(c, True) for c in esc]
    return lv


def _adjacent_ok(a, b, ext):
    """May node b directly follow node a without changing tokenisation?"""
    if a[0] == 'star' and b[0] == 'star':
        return False
    if a[0] == 'sep' and b[0] == 'sep':
        return False
    if ext and b[0] == 'lit' and b[1] == '(' and not b[2]:
        # a raw '(' after ? * + @ ! would open a group
        if a[0] in ('star', 'q'):
            return False
        if a[0] == 'lit' and not a[2] and a[1] in '+@!':
            return False
    return True


def gen(budget, lv, ext=True, depth=1, max_alts=2, kinds='?*+@!', empty_alt=True, exact=True, inner=None):
    """Yield every pattern (tuple of nodes) whose token cost is exactly `budget` (each leaf and each group costs 1).

    Alternatives of a group may be empty (cost 0) when empty_alt.  No two adjacent star nodes; no raw '(' after a
    group-opening character.
    """
    memo = {}
    top_depth = depth

    def seqs(b, d):
        key = (b, d)
        r = memo.get(key)
        if r is None:
            r = memo[key] = list(_seqs(b, d))
        return r

    def _seqs(b, d):
        if b == 0:
            yield ()
            return
        heads = [(1, x) for x in (lv if d == top_depth or inner is None else inner)]
        if ext and d > 0:
            for kind in kinds:
                for used in range(0, b):
                    for alts in alt_lists(used, d - 1):
                        heads.append((1 + used, ('ext', kind, alts)))
        for cost, h in heads:
            if cost > b:
                continue
            for rest in seqs(b - cost, d):
                if rest and not _adjacent_ok(h, rest[0], ext):
                    continue
                yield (h,) + rest

    def alt_lists(b, d):
        # 1..max_alts alternatives whose costs sum to b
        for n in range(1, max_alts + 1):
            for split in _compositions(b, n):
                if not empty_alt and 0 in split:
                    continue
                if n > 1 and split.count(0) > 1:
                    continue
                for combo in itertools.product(*[seqs(x, d) for x in split]):
                    yield tuple(combo)

    yield from seqs(budget, depth)


def _compositions(total, parts):
    if parts == 1:
        yield (total,)
        return
    for x in range(total + 1):
        for rest in _compositions(total - x, parts - 1):
            yield (x,) + rest
