"""Engine FSX: explicit-state exploration of file-system states (DESIGN 4).

A state is a frozenset of entries (path, kind, target) with kind in 'd' (directory), 'f' (file), 'l' (symlink).
Transitions are single create operations; BFS from the empty root with de-duplication on the frozenset
(operation order is irrelevant to the resulting tree, so merged states have identical futures).
Every state is materialised on a real file system and the real library is run against it.
"""
import os
import shutil
import tempfile

from . import bind

NAMES = ('a', 'b', '.h')
DEPTH = 2


def targets(parent, names, existing_siblings):
    ts = ['.', '..', 'zz']
    for n in names:
        ts.append(n)
    return ts


def successors(state, names=NAMES, depth=DEPTH):
    dirs = ['']
    for p, k, t in state:
        if k == 'd' and p.count('/') + 1 < depth:
            dirs.append(p)
    have = {p for p, k, t in state}
    for d in sorted(dirs):
        for n in names:
            path = (d + '/' + n) if d else n
            if path in have:
                continue
            yield ('mkdir', path), state | {(path, 'd', None)}
            yield ('touch', path), state | {(path, 'f', None)}
            for t in targets(d, names, None):
                if t == n:
                    continue  # self link (a -> a) is just a special cycle; kept out to bound the space
                if t == '..' and not d:
                    continue  # would leave the modelled tree (`.` at the root already gives the root cycle)
                yield ('symlink', path, t), state | {(path, 'l', t)}


def explore(max_ops, names=NAMES, depth=DEPTH, roots=(frozenset(),)):
    """BFS. Returns (states by layer: list of lists, n_transitions). Layer k = states first reached with k ops."""
    seen = set(roots)
    layers = [list(roots)]
    trans = 0
    for _k in range(max_ops):
        nxt = []
        for s in layers[-1]:
            for _op, t in successors(s, names, depth):
                trans += 1
                if t not in seen:
                    seen.add(t)
                    nxt.append(t)
        layers.append(nxt)
    return layers, trans


def canon(state):
    return tuple(sorted((p, k, t or '') for p, k, t in state))


def describe(state):
    out = []
    for p, k, t in canon(state):
        out.append(p + ('/' if k == 'd' else '' if k == 'f' else ' -> ' + t))
    return out


def from_desc(desc):
    s = set()
    for x in desc:
        if ' -> ' in x:
            p, t = x.split(' -> ')
            s.add((p, 'l', t))
        elif x.endswith('/'):
            s.add((x[:-1], 'd', None))
        else:
            s.add((x, 'f', None))
    return frozenset(s)


# ---------------------------------------------------------------- model

class Unknown(Exception):
    """The question leaves the modelled part of the file system (above the scratch base directory)."""


class Model:
    """Answers lexists / isdir (following links) / islink / listdir from the state alone (own resolver with loop
    detection; cross-checked against the real file system by `crosscheck`)."""

    def __init__(self, state, rootname='r'):
        self.state = state
        self.rootname = rootname
        self.ent = {p: (k, t) for p, k, t in state}
        self.children = {}
        for p in self.ent:
            d, _, n = p.rpartition('/')
            self.children.setdefault(d, []).append(n)
        for v in self.children.values():
            v.sort()
        self._res = {}

    def has_links(self):
        return any(k == 'l' for k, t in self.ent.values())

    def _norm(self, parts):
        """Resolve a list of components from the root, following links; returns (canonical path or None, kind)."""
        return self._walk([], list(parts), 0)

    def _walk(self, cur, rest, hops):
        # cur: list of canonical components (a real directory path); rest: components still to process
        while rest:
            c = rest.pop(0)
            if c in ('', '.'):
                continue
            if c == '..':
                if cur == ['^']:
                    raise Unknown()
                if cur:
                    cur = cur[:-1]
                else:
                    cur = ['^']     # the scratch base directory: contains only the root
                continue
            if cur == ['^']:
                if c == self.rootname:
                    cur = []
                    continue
                return None, None
            p = '/'.join(cur + [c])
            e = self.ent.get(p)
            if e is None:
                return None, None
            k, t = e
            if k == 'd':
                cur = cur + [c]
            elif k == 'f':
                if rest:
                    return None, None
                return p, 'f'
            else:
                hops += 1
                if hops > 40:
                    return None, 'loop'
                rest = [x for x in t.split('/')] + rest
        return '/'.join(cur), 'd'

    def kind_follow(self, path):
        """'d', 'f', None (missing/dangling), 'loop', 'outside' for a path relative to the root (links followed)."""
        key = path
        r = self._res.get(key)
        if r is None:
            r = self._res[key] = self._norm(path.split('/'))
        return r[1]

    def lkind(self, path):
        """Kind of the final component without following it: 'd','f','l', None; parent components are followed."""
        parts = [x for x in path.split('/') if x not in ('', '.')]
        if not parts:
            return 'd'
        if parts[-1] == '..':
            return self.kind_follow(path)
        parent, k = self._norm(parts[:-1])
        if k != 'd':
            return None
        if parent == '^':
            return 'd' if parts[-1] == self.rootname else None
        e = self.ent.get((parent + '/' if parent else '') + parts[-1])
        return e[0] if e else None

    def lexists(self, path):
        return self.lkind(path) is not None

    def isdir(self, path):
        return self.kind_follow(path) == 'd'

    def islink(self, path):
        return self.lkind(path) == 'l'

    def listdir(self, path):
        parts = [x for x in path.split('/') if x not in ('', '.')]
        real, k = self._norm(parts)
        if k != 'd':
            return None
        if real == '^':
            return [self.rootname]
        return list(self.children.get(real, []))

    def has_cycle(self):
        """Is there a directory symlink through which unbounded descent is possible (link to an ancestor / cycle)?"""
        for p, (k, t) in self.ent.items():
            if k != 'l':
                continue
            if self.kind_follow(p) in ('loop',):
                return True
            if self.kind_follow(p) == 'd':
                real, _ = self._norm(p.split('/'))
                d = p.rpartition('/')[0]
                # target is the root or an ancestor-or-self of the link's directory -> infinite descent when followed
                if real == '' or d == real or d.startswith(real + '/'):
                    return True
        # mutual links between sibling directories
        return self._mutual()

    def _mutual(self):
        links = [p for p, (k, t) in self.ent.items() if k == 'l' and self.kind_follow(p) == 'd']
        for p in links:
            real, _ = self._norm(p.split('/'))
            for q in links:
                if q.startswith(real + '/') or real == '':
                    r2, _ = self._norm(q.split('/'))
                    d = p.rpartition('/')[0]
                    if r2 == '' or d == r2 or d.startswith(r2 + '/'):
                        return True
        return False

    def all_paths(self):
        return sorted(self.ent)


# ---------------------------------------------------------------- real file system

def materialise(state, root):
    for p, k, t in sorted(state, key=lambda e: (e[0].count('/'), e[0])):
        full = os.path.join(root, p)
        if k == 'd':
            os.mkdir(full)
        elif k == 'f':
            with open(full, 'w'):
                pass
        else:
            os.symlink(t, full)


class Scratch:
    """A fresh directory holding one materialised state at `<base>/r` (so that `..` from the root stays in scratch)."""

    def __init__(self, rootname='r'):
        self.base = tempfile.mkdtemp(prefix='vffsx_', dir=bind.scratch_base())
        self.rootname = rootname
        self.root = os.path.join(self.base, rootname)
        os.mkdir(self.root)

    def load(self, state):
        for n in os.listdir(self.root):
            p = os.path.join(self.root, n)
            if os.path.isdir(p) and not os.path.islink(p):
                shutil.rmtree(p)
            else:
                os.unlink(p)
        materialise(state, self.root)

    def close(self):
        shutil.rmtree(self.base, ignore_errors=True)


def crosscheck(model, root):
    """The model's resolver must agree with the kernel on every entry (lstat / stat / listdir)."""
    for p in model.all_paths():
        full = os.path.join(root, p)
        lk = model.lkind(p)
        real_l = 'l' if os.path.islink(full) else 'd' if os.path.isdir(full) else 'f' if os.path.lexists(full) else None
        if lk != real_l:
            return 'lkind %s model=%s real=%s' % (p, lk, real_l)
        kf = model.kind_follow(p)
        try:
            real_f = 'd' if os.path.isdir(full) else 'f' if os.path.isfile(full) else None
        except OSError:
            real_f = None
        if (kf if kf in ('d', 'f') else None) != real_f:
            return 'follow %s model=%s real=%s' % (p, kf, real_f)
        if kf == 'd':
            ml = model.listdir(p)
            try:
                rl = sorted(os.listdir(full))
            except OSError:
                rl = None
            if ml != rl:
                return 'listdir %s model=%s real=%s' % (p, ml, rl)
    return None


class Horizon(BaseException):
    """Raised by the scandir monitor when a walk exceeds its horizon (cannot be swallowed by `except OSError`)."""


class ScandirMonitor:
    """Wraps os.scandir: logs the path argument of every call, raises Horizon past `limit` calls."""

    def __init__(self, limit=4096):
        self.limit = limit
        self.log = []
        self._orig = None

    def __enter__(self):
        self._orig = os.scandir
        mon = self

        def scandir(path='.'):
            mon.log.append(path)
            if len(mon.log) > mon.limit:
                raise Horizon(len(mon.log))
            return mon._orig(path)
        os.scandir = scandir
        return self

    def __exit__(self, *exc):
        os.scandir = self._orig
        return False
