"""Re-run one chunk of a property in a fresh process and report whether a given violation occurs again.

Used for history-dependent violations (state leaking between calls): the plain single-case replay cannot show them,
but the same sequence of cases must fail every time.  stdin: JSON {"module":..., "chunk":..., "target":[kind, input]}
stdout: JSON {"found": bool, "observed": ...}
"""
import importlib
import json
import sys


def main():
    from . import run
    req = json.load(sys.stdin)
    mod = importlib.import_module(req['module'])
    chunk = run.unjson(req['chunk'])
    chunk = _tuplify(chunk)
    res = mod.run_chunk(chunk)
    packed = res.pack() if isinstance(res, run.ChunkResult) else res
    tk = json.dumps(req['target'], sort_keys=True)
    for v in packed['viol'] + list(packed['known_ex'].values()):
        if json.dumps([v['kind'], v['input']], sort_keys=True) == tk:
            print(json.dumps({'found': True, 'observed': v['observed']}))
            return
    print(json.dumps({'found': False, 'observed': None}))


def _tuplify(x):
    if isinstance(x, list):
        return tuple(_tuplify(i) for i in x)
    return x


if __name__ == '__main__':
    main()
