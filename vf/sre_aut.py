"""Python regex (CPython's own parse tree) -> guarded eps-NFA -> backward DFA (DESIGN 3.1).

The NFA is built from `re._parser.parse`, i.e. the parser `re.compile` itself uses.  Look-ahead assertions
become fragments whose accept state is live at every position; since look-ahead depends only on the suffix,
the NFA is determinised reading the subject right-to-left.  Sets of NFA states are Python ints (bit sets).
"""
import re
import re._parser as sp
import re._constants as sc


class Unsupported(Exception):
    """Regex construct outside the subset translated exactly (falls back to bounded enumeration)."""


# ---------------------------------------------------------------- atoms

class Atom:
    """A consuming test: kind in LITERAL/NOT_LITERAL/ANY/IN + flags in force."""

    __slots__ = ('kind', 'av', 'ic', 'dotall', 'key')

    def __init__(self, kind, av, ic, dotall):
        self.kind = kind
        self.av = av
        self.ic = ic
        self.dotall = dotall
        self.key = (kind, av, ic, dotall)

    def _base(self, c):
        k = self.kind
        if k == 'LITERAL':
            return c == self.av
        if k == 'NOT_LITERAL':
            return c != self.av
        if k == 'ANY':
            return self.dotall or c != 10
        neg = False
        hit = False
        for o, a in self.av:
            if o == 'NEGATE':
                neg = True
            elif o == 'LITERAL':
                hit = hit or c == a
            elif o == 'RANGE':
                hit = hit or a[0] <= c <= a[1]
            else:
                raise Unsupported(o)
        return hit, neg

    def member(self, c):
        """Does code point / byte value `c` satisfy the atom (ASCII-only case folding)."""
        k = self.kind
        if k == 'IN':
            hit, neg = self._base(c)
            if not hit and self.ic:
                s = _swap(c)
                if s != c:
                    hit = self._base(s)[0]
            return hit != neg
        if not self.ic:
            return self._base(c)
        if k == 'LITERAL':
            return c == self.av or _swap(c) == self.av
        if k == 'NOT_LITERAL':
            return not (c == self.av or _swap(c) == self.av)
        return self._base(c)

    def endpoints(self):
        k = self.kind
        pts = set()
        rng = False
        if k in ('LITERAL', 'NOT_LITERAL'):
            pts.add(self.av)
        elif k == 'ANY':
            pts.add(10)
        else:
            for o, a in self.av:
                if o == 'LITERAL':
                    pts.add(a)
                elif o == 'RANGE':
                    pts.add(a[0])
                    pts.add(a[1])
                    rng = True
        if self.ic:
            pts |= {_swap(p) for p in pts}
            if rng:
                pts |= {0x41, 0x5a, 0x61, 0x7a}
                # images of clipped letter blocks
                for o, a in self.av:
                    if o == 'RANGE':
                        for lo, hi in ((0x41, 0x5a), (0x61, 0x7a)):
                            l2, h2 = max(lo, a[0]), min(hi, a[1])
                            if l2 <= h2:
                                pts.add(_swap(l2))
                                pts.add(_swap(h2))
        return pts


def _swap(c):
    if 0x41 <= c <= 0x5a:
        return c + 32
    if 0x61 <= c <= 0x7a:
        return c - 32
    return c


def _freeze(x):
    if isinstance(x, (list, tuple)):
        return tuple(_freeze(i) for i in x)
    if isinstance(x, sc._NamedIntConstant):
        return str(x)
    return x


# ---------------------------------------------------------------- NFA

G_NONE = 0
G_LA = 1
G_BOS = 2      # ^ / \A
G_EOL = 3      # $ : end, or just before a final newline
G_EOS = 4      # \Z

_MAX_UNROLL = 64


class SreNFA:
    def __init__(self, pattern, flags=0):
        """`pattern` is the regex source (str or bytes) or a compiled re.Pattern."""
        if isinstance(pattern, re.Pattern):
            flags = pattern.flags & (re.I | re.S | re.M | re.X | re.A)
            pattern = pattern.pattern
        self.source = pattern
        self.is_bytes = isinstance(pattern, bytes)
        tree = sp.parse(pattern, flags)
        gflags = tree.state.flags
        if gflags & re.M:
            raise Unsupported('MULTILINE')
        if gflags & re.L:
            raise Unsupported('LOCALE')
        self.groups = tree.state.groups - 1
        self.eps = []       # eps[q] = [(target, gkind, garg)]
        self.chr = []       # chr[q] = [(atom index, target)]
        self.level = []
        self.atoms = []
        self._aix = {}
        self.frag_accepts = []
        self.start = self._new(0)
        self.final = self._seq(list(tree), self.start, 0, gflags)
        self.n = len(self.eps)
        self.maxlevel = max(self.level)

    def _new(self, level):
        self.eps.append([])
        self.chr.append([])
        self.level.append(level)
        return len(self.eps) - 1

    def _atom(self, kind, av, flags):
        a = Atom(kind, av, bool(flags & re.I), bool(flags & re.S))
        i = self._aix.get(a.key)
        if i is None:
            i = self._aix[a.key] = len(self.atoms)
            self.atoms.append(a)
        return i

    def _seq(self, items, s, level, flags):
        cur = s
        for op, av in items:
            cur = self._op(op, av, cur, level, flags)
        return cur

    def _op(self, op, av, s, level, flags):
        if op in (sc.LITERAL, sc.NOT_LITERAL, sc.ANY, sc.IN):
            if op is sc.IN:
                fav = _freeze(av)
                for o, _a in fav:
                    if o not in ('NEGATE', 'LITERAL', 'RANGE'):
                        raise Unsupported('IN item %s' % (o,))
            else:
                fav = av
            e = self._new(level)
            self.chr[s].append((self._atom(str(op), fav, flags), e))
            return e
        if op is sc.SUBPATTERN:
            _group, add, dele, p = av
            return self._seq(list(p), s, level, (flags | add) & ~dele)
        if op is sc.BRANCH:
            e = self._new(level)
            for alt in av[1]:
                a = self._new(level)
                self.eps[s].append((a, G_NONE, None))
                x = self._seq(list(alt), a, level, flags)
                self.eps[x].append((e, G_NONE, None))
            return e
        if op in (sc.MAX_REPEAT, sc.MIN_REPEAT):
            lo, hi, p = av
            p = list(p)
            if lo > _MAX_UNROLL or (hi is not sc.MAXREPEAT and hi > _MAX_UNROLL):
                raise Unsupported('large repeat')
            cur = s
            for _ in range(lo):
                cur = self._seq(p, cur, level, flags)
            if hi is sc.MAXREPEAT:
                a = self._new(level)
                e = self._new(level)
                self.eps[cur].append((a, G_NONE, None))
                x = self._seq(p, a, level, flags)
                self.eps[x].append((a, G_NONE, None))
                self.eps[a].append((e, G_NONE, None))
                return e
            e = self._new(level)
            self.eps[cur].append((e, G_NONE, None))
            for _ in range(hi - lo):
                cur = self._seq(p, cur, level, flags)
                self.eps[cur].append((e, G_NONE, None))
            return e
        if op in (sc.ASSERT, sc.ASSERT_NOT):
            direction, p = av
            if direction != 1:
                raise Unsupported('look-behind')
            fs = self._new(level + 1)
            fe = self._seq(list(p), fs, level + 1, flags)
            self.frag_accepts.append(fe)
            e = self._new(level)
            self.eps[s].append((e, G_LA, (op is sc.ASSERT_NOT, fs)))
            return e
        if op is sc.AT:
            e = self._new(level)
            if av in (sc.AT_BEGINNING, sc.AT_BEGINNING_STRING):
                g = G_BOS
            elif av is sc.AT_END:
                g = G_EOL
            elif av is sc.AT_END_STRING:
                g = G_EOS
            else:
                raise Unsupported(str(av))
            self.eps[s].append((e, g, None))
            return e
        raise Unsupported(str(op))


# ---------------------------------------------------------------- backward DFA

class BackDFA:
    """Deterministic automaton over alphabet classes, reading the subject from its last character to its first.

    A state is (C, at_end, dollar_ok): C = bit set of NFA states live *by consuming the next character*.
    `alphabet` is a list of representative code points (ints); `nl_index` is the index of '\n' (or None).
    """

    def __init__(self, nfa, alphabet):
        self.nfa = nfa
        self.alphabet = alphabet
        self.nl = alphabet.index(10) if 10 in alphabet else None
        tab = [[a.member(c) for c in alphabet] for a in nfa.atoms]
        # per class: list of (bit of q, mask of targets reachable from q on that class)
        self.trans = []
        for ci in range(len(alphabet)):
            row = []
            for q in range(nfa.n):
                m = 0
                for a, t in nfa.chr[q]:
                    if tab[a][ci]:
                        m |= 1 << t
                if m:
                    row.append((1 << q, m))
            self.trans.append(row)
        self.by_level = [[] for _ in range(nfa.maxlevel + 1)]
        for q in range(nfa.n):
            if nfa.eps[q]:
                self.by_level[nfa.level[q]].append((q, 1 << q, nfa.eps[q]))
        self.frag_mask = 0
        for q in nfa.frag_accepts:
            self.frag_mask |= 1 << q
        self.final_bit = 1 << nfa.final
        self.start_bit = 1 << nfa.start
        self.init = (0, True, True)
        self._step = {}
        self._acc = {}

    def closure(self, S, is_start):
        C, at_end, dollar = S
        live = C | self.frag_mask
        if at_end:
            live |= self.final_bit
        for L in range(len(self.by_level) - 1, -1, -1):
            lv = self.by_level[L]
            changed = True
            while changed:
                changed = False
                for q, qb, edges in lv:
                    if live & qb:
                        continue
                    for t, g, arg in edges:
                        if not (live >> t) & 1:
                            continue
                        if g == G_NONE:
                            ok = True
                        elif g == G_LA:
                            ok = bool((live >> arg[1]) & 1) != arg[0]
                        elif g == G_BOS:
                            ok = is_start
                        elif g == G_EOL:
                            ok = dollar
                        else:
                            ok = at_end
                        if ok:
                            live |= qb
                            changed = True
                            break
        return live

    def step(self, S, ci):
        key = (S, ci)
        r = self._step.get(key)
        if r is None:
            D = self.closure(S, False)
            C2 = 0
            for qb, m in self.trans[ci]:
                if m & D:
                    C2 |= qb
            r = self._step[key] = (C2, False, S[1] and ci == self.nl)
        return r

    def accepting(self, S):
        r = self._acc.get(S)
        if r is None:
            r = self._acc[S] = bool(self.closure(S, True) & self.start_bit)
        return r

    def run(self, indices):
        """Accept a subject given as a list of class indices (in reading order, first char first)."""
        S = self.init
        for ci in reversed(indices):
            S = self.step(S, ci)
        return self.accepting(S)
