"""C15 - a WcMatch object can be killed, reset and re-run with prefix-exact results.

Engine SEQ on fixed trees:
  (a) every abort point: kill() issued from the k-th hook invocation of a run, for every k, and by the consumer between
      any two results; (c) hooks that raise at every position k;
  (b) every operation sequence up to a depth over {match, imatch, next, kill, reset, is_aborted, get_skipped} on one
      object, compared step by step with a small reference model built from the uninterrupted trace;
  (d) kill from another thread: thread A runs list(w.imatch()), thread B runs w.kill(); a baton scheduler driven by
      sys.settrace line events inside wcmatch/wcmatch.py places B's single step before every line event of A.
"""
import itertools
import os
import shutil
import sys
import tempfile
import threading

from .. import bind, run
from wcmatch import wcmatch as WM

ID = 'C15'
LEVEL = 'exploration'
REPLAY_DEADLINE = 120

TREES = {
    'flat': ['a.txt', 'b.txt', 'c.log', 'd.txt'],
    'nested': ['a.txt', 'sub/b.txt', 'sub/c.log', 'sub/deep/d.txt', 'z/e.txt'],
    'skips': ['a.log', 'b.log', 'c.txt', 'sub/d.log', 'sub/e.txt'],
    'excluded': ['a.txt', 'skipme/b.txt', 'keep/c.txt', 'keep/d.log'],
    'raising': ['a.txt', 'boom.txt', 'c.txt', 'sub/boom.txt', 'sub/e.txt'],
    'raisedirs': ['a.txt', 'boomd1/x.txt', 'boomd2/y.txt', 'boomd3/z.txt', 'ok/w.txt'],   # directory validation raises
    'empty': [],
}
HOOKS_FILE = ('on_validate_file', 'on_match', 'on_skip', 'on_error')


def make_tree(name):
    root = tempfile.mkdtemp(prefix='vfc15_', dir=bind.scratch_base())
    for p in TREES[name]:
        full = os.path.join(root, p)
        os.makedirs(os.path.dirname(full), exist_ok=True)
        open(full, 'w').close()
    return root


class Rec(WM.WcMatch):
    """Records every hook invocation; at event number `at` performs `action` ('kill' or 'raise')."""

    def on_init(self, at=None, action=None, skip_values=False, **kw):
        self.trace = []
        self.at = at
        self.action = action
        self.skip_values = skip_values
        self.resets = 0

    def _ev(self, hook, base, name):
        k = len(self.trace)
        rel = os.path.relpath(os.path.join(base, name), self._root_dir) if name is not None else None
        self.trace.append((hook, rel))
        if self.at is not None and k == self.at:
            if self.action == 'kill':
                self.kill()
            elif self.action == 'raise':
                raise RuntimeError('hook failure injected at event %d' % k)

    def on_reset(self):
        self.resets += 1
        self._ev('on_reset', '', None)

    def on_validate_directory(self, base, name):
        self._ev('on_validate_directory', base, name)
        if name.startswith('boomd'):
            raise ValueError('boom dir')
        return name != 'skipme'

    def on_validate_file(self, base, name):
        self._ev('on_validate_file', base, name)
        if name == 'boom.txt':
            raise ValueError('boom')
        return True

    def on_match(self, base, name):
        self._ev('on_match', base, name)
        return ('M', os.path.relpath(os.path.join(base, name), self._root_dir))

    def on_skip(self, base, name):
        self._ev('on_skip', base, name)
        return ('S', os.path.relpath(os.path.join(base, name), self._root_dir)) if self.skip_values else None

    def on_error(self, base, name):
        self._ev('on_error', base, name)
        return ('E', os.path.relpath(os.path.join(base, name), self._root_dir))


def new(root, **kw):
    return Rec(root, '*.txt', None, flags=WM.RECURSIVE, **kw)


def clean_run(root, skip_values):
    w = new(root, skip_values=skip_values)
    ys = w.match()
    return w, ys, list(w.trace), w.get_skipped()


# ---------------------------------------------------------------- (a) + (c): abort / raise at every hook position

def check_abort_points(tname, root, res):
    for skip_values in (False, True):
        w0, Y0, T0, S0 = clean_run(root, skip_values)
        # repeated runs of one object are identical, on_reset once per run, skipped restarts
        again = w0.match()
        res.n['evaluations'] += 1
        if again != Y0 or w0.resets != 2 or w0.get_skipped() != S0:
            res.add_violation(ID, run.viol('rerun-differs', {'tree': tname, 'skip_values': skip_values}, {'results': Y0, 'resets': 2, 'skipped': S0},
                                           {'results': again, 'resets': w0.resets, 'skipped': w0.get_skipped()}))
        # every visited file goes to exactly one of on_match / on_skip
        files = [r for h, r in T0 if h == 'on_validate_file' or (h in ('on_skip', 'on_match'))]
        routed = [r for h, r in T0 if h in ('on_match', 'on_skip')]
        res.n['evaluations'] += 1
        visited = sorted(p for p in TREES[tname] if not p.startswith('skipme/') and not p.startswith('boomd'))
        n_skip = sum(1 for h, r in T0 if h == 'on_skip')
        if sorted(routed) != visited or w0.get_skipped() != n_skip:
            res.add_violation(ID, run.viol('routing', {'tree': tname, 'skip_values': skip_values},
                                           {'each visited file to exactly one of on_match/on_skip': visited, 'skipped': n_skip},
                                           {'routed': sorted(routed), 'skipped': w0.get_skipped()}))
        for k in range(len(T0)):
            for action in ('kill', 'raise'):
                res.n['evaluations'] += 1
                res.n['distinct_nontrivial'] += 1
                w = new(root, at=k, action=action, skip_values=skip_values)
                inp = {'tree': tname, 'skip_values': skip_values, 'event': k, 'hook': T0[k][0], 'file': T0[k][1], 'action': action}
                try:
                    ys = w.match()
                except Exception as e:  # noqa: BLE001
                    if action == 'raise' and T0[k][0] in ('on_reset', 'on_skip', 'on_match', 'on_error'):
                        # only validation hooks are documented to be captured; others propagate
                        res.outcomes.add('raise-propagates:' + T0[k][0])
                        continue
                    res.add_violation(ID, run.viol('hook-exception-escaped', inp, 'captured -> on_error', {'exc': type(e).__name__}))
                    continue
                if action == 'kill':
                    check_kill_run(w, ys, T0, Y0, k, inp, res)
                else:
                    check_raise_run(w, ys, T0, Y0, k, inp, res)


def check_kill_run(w, ys, T0, Y0, k, inp, res):
    hook, f = T0[k]
    after = w.trace[k + 1:]
    # what may still happen: only hooks about the file being processed
    if hook in HOOKS_FILE:
        bad = [e for e in after if e[1] != f or e[0] not in ('on_match', 'on_skip', 'on_error')]
        allowed_extra = {('M', f), ('S', f), ('E', f)}
    elif hook == 'on_validate_directory':
        # the directory in flight: if its validation raises after the kill, its on_error record still follows
        bad = [e for e in after if e != ('on_error', f)]
        allowed_extra = {('E', f)}
    else:
        bad = list(after)
        allowed_extra = set()
    pre = [y for y in Y0 if y in ys]
    prefix_ok = ys[:len(ys)] == [y for y in ys] and all(a == b for a, b in zip(ys, Y0)) and len(ys) <= len(Y0)
    # results yielded after the kill
    n_before = sum(1 for e in w.trace[:k + 1] if False)
    ok_extra = True
    # number of results produced by events up to and including k in the clean run
    if bad or not prefix_ok or not w.is_aborted():
        res.outcomes.add('kill-bad')
        res.add_violation(ID, run.viol('kill-continues', inp, {'events_after_kill': 'only about the file in flight', 'prefix_of': Y0},
                                       {'events_after_kill': after[:6], 'results': ys, 'is_aborted': w.is_aborted()}))
        return
    res.outcomes.add('kill-ok:%s' % hook)
    # stays aborted until reset; after reset complete again
    r2 = w.match()
    w.at = None
    w.reset()
    r3 = w.match()
    if r2 != [] or r3 != Y0 or w.is_aborted():
        res.add_violation(ID, run.viol('reset-rerun', inp, {'while_aborted': [], 'after_reset': Y0},
                                       {'while_aborted': r2, 'after_reset': r3, 'is_aborted': w.is_aborted()}))


def check_raise_run(w, ys, T0, Y0, k, inp, res):
    hook, f = T0[k]
    # a raising validation hook is captured: on_error for that file/dir; other files unaffected
    errs = [e for e in w.trace if e[0] == 'on_error']
    if (hook == 'on_validate_file' and ('on_error', f) not in errs) or (hook == 'on_validate_directory' and ('on_error', f) not in errs):
        res.add_violation(ID, run.viol('error-not-routed', inp, 'on_error(%s)' % f, {'on_error_calls': errs}))
        return
    others = [y for y in Y0 if y[1] != f and not (hook == 'on_validate_directory' and (y[1] + '/').startswith(f + '/'))]
    got_others = [y for y in ys if y[1] != f and y[0] != 'E' or (y[0] == 'E' and y[1] != f)]
    got_others = [y for y in got_others if not (hook == 'on_validate_directory' and (y[1] + '/').startswith(f + '/'))]
    if got_others != others:
        res.add_violation(ID, run.viol('error-disturbs-others', inp, others, got_others))
        return
    res.outcomes.add('raise-ok:%s' % hook)


class FalsyRec(Rec):
    """Hooks returning falsy values that are not None: they are values like any other."""

    def on_match(self, base, name):
        self._ev('on_match', base, name)
        return 0

    def on_skip(self, base, name):
        self._ev('on_skip', base, name)
        return ''

    def on_error(self, base, name):
        self._ev('on_error', base, name)
        return ()


class KilledAtBirth(Rec):
    def on_init(self, **kw):
        super().on_init(**kw)
        self.kill()


def check_kill_in_on_init(tname, root, res):
    """kill() before the iteration starts - here from on_init - : nothing is yielded until reset()."""
    res.n['evaluations'] += 1
    res.n['distinct_nontrivial'] += 1
    w = KilledAtBirth(root, '*.txt', None, flags=WM.RECURSIVE)
    aborted = w.is_aborted()
    r1 = w.match()
    r2 = list(w.imatch())
    w.reset()
    r3 = w.match()
    want = clean_run(root, False)[1]
    ok = aborted and r1 == [] and r2 == [] and r3 == want
    res.outcomes.add('born-killed-ok' if ok else 'born-killed-runs')
    if not ok:
        res.add_violation(ID, run.viol('kill-before-start-ignored', {'tree': tname, 'where': 'on_init'},
                                       {'is_aborted': True, 'while_aborted': [], 'after_reset': want},
                                       {'is_aborted': aborted, 'match': r1, 'imatch': r2, 'after_reset': r3}))


def check_falsy_values(tname, root, res):
    """Values returned by the hooks are passed through unchanged - also 0, '' and () (only None means "no value")."""
    res.n['evaluations'] += 1
    res.n['distinct_nontrivial'] += 1
    w = FalsyRec(root, '*.txt', None, flags=WM.RECURSIVE)
    ys = w.match()
    want = [{'on_match': 0, 'on_skip': '', 'on_error': ()}[h] for h, _f in w.trace if h in ('on_match', 'on_skip', 'on_error')]
    res.outcomes.add('falsy-ok' if ys == want else 'falsy-dropped')
    if ys != want:
        res.add_violation(ID, run.viol('hook-value-dropped', {'tree': tname, 'hooks': 'on_match->0, on_skip->\'\', on_error->()'},
                                       run.jsonable(want), run.jsonable(ys)))


def check_consumer_kill(tname, root, res):
    """kill() by the consumer between any two results."""
    for skip_values in (False, True):
        w0, Y0, T0, S0 = clean_run(root, skip_values)
        for k in range(len(Y0) + 1):
            res.n['evaluations'] += 1
            res.n['distinct_nontrivial'] += 1
            w = new(root, skip_values=skip_values)
            it = w.imatch()
            got = []
            for _ in range(k):
                got.append(next(it))
            w.kill()
            nev = len(w.trace)
            rest = list(it)
            inp = {'tree': tname, 'skip_values': skip_values, 'results_before_kill': k}
            later = w.trace[nev:]
            if k == 0:
                # the run had not started: on_reset is the only hook that may run
                later = [e for e in later if e[0] != 'on_reset']
            else:
                # the file whose result was just yielded may still be in flight (an on_error value is yielded before the
                # same file is routed to on_skip): events and results about that very file are allowed
                f = got[-1][1]
                if got[-1][0] == 'E':
                    later = [e for e in later if not (e[1] == f and e[0] in ('on_skip', 'on_match'))]
                    rest = [y for y in rest if y[1] != f]
            if rest or later or got != Y0[:k]:
                res.outcomes.add('consumer-kill-bad')
                res.add_violation(ID, run.viol('kill-continues', inp, {'after_kill': [], 'before': Y0[:k]},
                                               {'after_kill': rest, 'events_after_kill': later[:6], 'before': got}))
            else:
                res.outcomes.add('consumer-kill-ok')


# ---------------------------------------------------------------- (b) operation sequences vs reference model

OPS = ('match', 'imatch', 'next', 'kill', 'reset', 'is_aborted', 'get_skipped')


class Model:
    """Reference model of one WcMatch object, built from the uninterrupted trace."""

    def __init__(self, T):
        # T: list of ('yield', value) / ('skip',) in the order of an uninterrupted run
        self.T = T
        self.aborted = False
        self.gen = None         # [index into T, started, dead]
        self.skipped = 0
        self.resets = 0

    def _run_from(self, idx, stop_at_first):
        out = []
        while idx < len(self.T):
            it = self.T[idx]
            idx += 1
            if it[0] == 'skip':
                self.skipped += 1
            else:
                out.append(it[1])
                if stop_at_first:
                    return out, idx, False
        return out, idx, True

    def op(self, name):
        if name == 'match':
            self.resets += 1
            self.skipped = 0
            if self.aborted:
                return []
            out, _, _ = self._run_from(0, False)
            return out
        if name == 'imatch':
            self.gen = [0, False, False]
            return None
        if name == 'next':
            g = self.gen
            if g is None:
                return 'NOGEN'
            if g[2]:
                return 'STOP'
            if not g[1]:
                g[1] = True
                self.resets += 1
                self.skipped = 0
            if self.aborted:
                # "nothing further beyond the file being processed": a generator suspended at the value on_error returned
                # for file f still finishes f (its skip accounting) when resumed, then stops
                i = g[0]
                if 0 < i < len(self.T) and self.T[i - 1][0] == 'yield' and self.T[i - 1][2] == 'E' \
                        and self.T[i][0] == 'skip' and self.T[i][1] == self.T[i - 1][3]:
                    self.skipped += 1
                    g[0] = i + 1
                g[2] = True
                return 'STOP'
            out, idx, end = self._run_from(g[0], True)
            g[0] = idx
            if out:
                return out[0]
            g[2] = True
            return 'STOP'
        if name == 'kill':
            self.aborted = True
            return None
        if name == 'reset':
            self.aborted = False
            return None
        if name == 'is_aborted':
            return self.aborted
        if name == 'get_skipped':
            return self.skipped
        raise ValueError(name)


def real_op(w, st, name):
    if name == 'match':
        return w.match()
    if name == 'imatch':
        st['gen'] = w.imatch()
        return None
    if name == 'next':
        if st.get('gen') is None:
            return 'NOGEN'
        try:
            return next(st['gen'])
        except StopIteration:
            return 'STOP'
    if name == 'kill':
        return w.kill()
    if name == 'reset':
        return w.reset()
    if name == 'is_aborted':
        return w.is_aborted()
    if name == 'get_skipped':
        return w.get_skipped()


def trace_items(root):
    w = new(root)
    ys = w.match()
    T = []
    yi = iter(ys)
    for h, f in w.trace:
        if h == 'on_match' or h == 'on_error':
            T.append(('yield', next(yi), 'E' if h == 'on_error' else 'M', f))
        elif h == 'on_skip':
            T.append(('skip', f))
    return T


def check_sequences(tname, root, depth, res, first_ops):
    T = trace_items(root)
    for first in first_ops:
        for L in range(1, depth + 1):
            for rest in itertools.product(OPS, repeat=L - 1):
                seq = (first,) + rest
                # skip sequences whose 'next' has no generator (not applicable) to save time
                if 'next' in seq and 'imatch' not in seq[:seq.index('next')]:
                    continue
                res.n['evaluations'] += 1
                res.n['sequences'] += 1
                w = new(root)
                m = Model(T)
                st = {}
                for i, op in enumerate(seq):
                    a = real_op(w, st, op)
                    b = m.op(op)
                    if a != b or w.resets != m.resets:
                        res.outcomes.add('seq-differs')
                        res.add_violation(ID, run.viol('sequence', {'tree': tname, 'ops': list(seq[:i + 1])},
                                                       {'value': b, 'on_reset_calls': m.resets},
                                                       {'value': a, 'on_reset_calls': w.resets}))
                        break
                else:
                    res.outcomes.add('seq-ok')
                    if any(o in ('kill', 'next') for o in seq):
                        res.n['distinct_nontrivial'] += 1


# ---------------------------------------------------------------- (d) kill from another thread under a baton scheduler

WCFILE = os.path.abspath(WM.__file__)


def threaded_kill_run(root, k, skip_values=False):
    """Thread A runs list(w.imatch()); thread B runs w.kill() exactly before A's k-th line event in wcmatch.py.

    Returns (results, trace, number of line events seen, position description)."""
    w = new(root, skip_values=skip_values)
    go_b = threading.Event()
    done_b = threading.Event()
    out = {}
    count = [0]
    where = [None]

    def tracer(frame, event, arg):
        if frame.f_code.co_filename != WCFILE:
            return None
        if event == 'line' or event == 'call':
            if event == 'line':
                if count[0] == k:
                    where[0] = '%s:%d' % (frame.f_code.co_name, frame.f_lineno)
                    out['results_before'] = len(out.get('partial', []))
                    out['trace_before'] = len(w.trace)
                    go_b.set()          # hand the baton to B
                    done_b.wait()       # B's single step runs to completion; then A continues
                count[0] += 1
        return tracer

    def body_a():
        sys.settrace(tracer)
        try:
            res = []
            out['partial'] = res
            for y in w.imatch():
                res.append(y)
            out['results'] = res
        finally:
            sys.settrace(None)

    def body_b():
        go_b.wait()
        if not out.get('a_finished'):
            w.kill()
        done_b.set()

    ta = threading.Thread(target=body_a)
    tb = threading.Thread(target=body_b)
    tb.start()
    ta.start()
    ta.join(60)
    out['a_finished'] = True
    go_b.set()
    tb.join(60)
    if ta.is_alive() or tb.is_alive():
        return None, None, count[0], where[0], out
    return out.get('results'), list(w.trace), count[0], where[0], out


def check_threads(tname, root, res):
    w0, Y0, T0, S0 = clean_run(root, False)
    # number of line events of an uninterrupted traced run
    _r, _t, n, _w, _o = threaded_kill_run(root, 10 ** 9)
    res.n['schedules_total_points'] += n
    seen = set()
    for k in range(n):
        res.n['evaluations'] += 1
        res.n['schedules'] += 1
        ys, trace, cnt, where, out = threaded_kill_run(root, k)
        inp = {'tree': tname, 'kill_before_line_event': k, 'at': where}
        if ys is None:
            res.add_violation(ID, run.viol('deadlock', inp, 'both threads finish', 'thread still alive'))
            continue
        nb = out.get('results_before', 0)
        prefix = ys == Y0[:len(ys)]
        extra = len(ys) - nb
        seen.add((nb, len(ys)))
        if not prefix or extra > 1:
            res.outcomes.add('thread-kill-bad')
            res.add_violation(ID, run.viol('async-kill-continues', inp, {'prefix_of': Y0, 'results_before_kill': nb, 'further_results': '<= 1'},
                                           {'results': ys}))
        else:
            res.outcomes.add('thread-kill:%d+%d' % (min(nb, 3), extra))
            res.n['distinct_nontrivial'] += 1
    res.n['schedule_outcomes'] += len(seen)


# ---------------------------------------------------------------- planning

def plan(tier, seed):
    chunks = []
    depth = 6 if tier == 'quick' else 7
    for t in TREES:
        chunks.append(('abort', t))
        chunks.append(('threads', t))
        for first in OPS:
            chunks.append(('seq', t, depth if t in ('skips', 'empty') or tier != 'quick' else depth - 1, first))
    return {
        'chunks': chunks,
        'coverage': {'trees': TREES, 'sequence_depth': depth, 'ops': list(OPS), 'exhaustive': True,
                     'abort_points': 'every hook invocation index of every tree x {kill, raise} x {on_skip returns a value, None}; '
                                     'every consumer position between results',
                     'scheduler': 'thread A = list(imatch()), thread B = kill(); B placed before every line event of A inside '
                                  'wcmatch/wcmatch.py (complete for this harness: B has one atomic step)'},
        'rule': 'six fixed trees; every abort index, every raising-hook index, every consumer kill position; every operation '
                'sequence up to the stated depth (sequences using next before any imatch are not applicable and skipped); every '
                'placement of the killing thread; non-trivial = abort/raise runs, sequences containing kill or next, schedules '
                'that satisfied the criterion with a recorded position',
        'assumptions': ['exceptions raised by on_reset/on_match/on_skip/on_error are not promised to be captured (only '
                        'validation hooks and comparisons are)',
                        'asynchronous kill: prefix plus at most one further result'],
        'nontrivial_floor': 200,
        'min_outcomes': 3,
    }


def run_chunk(chunk):
    res = run.ChunkResult()
    kind, tname = chunk[0], chunk[1]
    root = make_tree(tname)
    try:
        if kind == 'abort':
            check_abort_points(tname, root, res)
            check_consumer_kill(tname, root, res)
            check_falsy_values(tname, root, res)
            check_kill_in_on_init(tname, root, res)
            res.samples.append({'tree': tname, 'abort': 'kill() from hook invocation k, all k'})
        elif kind == 'seq':
            check_sequences(tname, root, chunk[2], res, [chunk[3]])
            res.samples.append({'tree': tname, 'ops': [chunk[3], 'imatch', 'next', 'kill', 'next']})
        else:
            check_threads(tname, root, res)
            res.samples.append({'tree': tname, 'schedule': 'B.kill() before line event k of A'})
    finally:
        shutil.rmtree(root, ignore_errors=True)
    return res


def replay(v):
    inp = v['input']
    root = make_tree(inp['tree'])
    try:
        r = run.ChunkResult()
        k = v['kind']
        if k == 'sequence':
            T = trace_items(root)
            w = new(root)
            m = Model(T)
            st = {}
            a = b = None
            for op in inp['ops']:
                a = real_op(w, st, op)
                b = m.op(op)
            return {'violates': a != b or w.resets != m.resets, 'observed': {'value': a, 'on_reset_calls': w.resets}}
        if k in ('async-kill-continues', 'deadlock'):
            w0, Y0, T0, S0 = clean_run(root, False)
            ys, trace, cnt, where, out = threaded_kill_run(root, inp['kill_before_line_event'])
            if ys is None:
                return {'violates': True, 'observed': 'deadlock'}
            nb = out.get('results_before', 0)
            bad = ys != Y0[:len(ys)] or len(ys) - nb > 1
            return {'violates': bad, 'observed': {'results': ys}}
        if k == 'kill-before-start-ignored':
            check_kill_in_on_init(inp['tree'], root, r)
            return {'violates': bool(r.viol), 'observed': r.viol[0]['observed'] if r.viol else 'ok'}
        if k == 'hook-value-dropped':
            check_falsy_values(inp['tree'], root, r)
            return {'violates': bool(r.viol), 'observed': r.viol[0]['observed'] if r.viol else 'ok'}
        if 'results_before_kill' in inp:
            check_consumer_kill(inp['tree'], root, r)
        else:
            check_abort_points(inp['tree'], root, r)
        hit = [x for x in r.viol + list(r.known_ex.values()) if x['kind'] == k and x['input'] == run.jsonable(inp)]
        return {'violates': bool(hit), 'observed': hit[0]['observed'] if hit else 'ok'}
    finally:
        shutil.rmtree(root, ignore_errors=True)
