"""C18 - bytes and str inputs behave identically.

  text      translate(bytes) == encode(translate(str)), compile() regex texts likewise, for every generated
            ASCII pattern / list x flags (identical regex text => identical language on ASCII subjects);
            where the texts differ the two executed-regex automata are compared over the ASCII minterms
            (same-code-unit relational product)
  perbyte   bytes-mode language == reference per-byte semantics (C01's reference with a byte alphabet that
            contains 0x80..0xff probes) for every bracket / POSIX form
  escape    escape(bytes) == encode(escape(str)), is_magic equal, all strings up to a length over the
            metacharacter alphabet
  mixed     every entry point raises TypeError for a str/bytes mix
  walk      glob / WcMatch on small real trees: bytes root gives os.fsencode of the str results, same order
"""
import itertools
import os
import shutil
import tempfile

from .. import bind, run, pat, impl, alphabet, product, langcmp, sre_aut
from wcmatch import glob as G, fnmatch as F, wcmatch as WM, pathlib as WP

ID = 'C18'
LEVEL = 'model_checking'

FN = {'C': F.CASE, 'I': F.IGNORECASE, 'N': F.NEGATE, 'M': F.MINUSNEGATE, 'D': F.DOTMATCH, 'E': F.EXTMATCH,
      'B': F.BRACE, 'S': F.SPLIT, 'A': F.NEGATEALL, 'W': F.FORCEWIN, 'U': F.FORCEUNIX, 'R': F.RAWCHARS}
GL = dict(FN, G=G.GLOBSTAR, L=G.GLOBSTARLONG, X=G.MATCHBASE, O=G.NODIR, Z=G.NODOTDIR)


def flags_of(mode, fs):
    tab = GL if mode == 'glob' else FN
    f = 0
    for ch in fs:
        f |= tab[ch]
    return f


def enc(x):
    if x is None:
        return None
    if isinstance(x, str):
        return x.encode('latin-1')
    return [enc(i) for i in x]


def _call(fn, *a, **k):
    try:
        return ('ok', fn(*a, **k))
    except Exception as e:  # noqa: BLE001
        return ('exc', type(e).__name__)


def check_text(mode, pats, ex, fs, res):
    mod = G if mode == 'glob' else F
    fl = flags_of(mode, fs)
    inp = {'mode': mode, 'patterns': pats, 'exclude': ex, 'flags': fs}
    res.n['evaluations'] += 1
    ts = _call(mod.translate, pats, flags=fl, exclude=ex)
    tb = _call(mod.translate, enc(pats), flags=fl, exclude=enc(ex))
    if ts[0] != tb[0] or (ts[0] == 'exc' and ts != tb):
        res.add_violation(ID, run.viol('translate-differs', inp, ts, tb))
        return
    if ts[0] == 'exc':
        res.outcomes.add('both-raise')
        return
    same = True
    try:
        want = (enc(ts[1][0]), enc(ts[1][1]))
    except UnicodeEncodeError:
        want = None
    if want is not None and want == (tb[1][0], tb[1][1]):
        res.outcomes.add('translate-text-equal')
    else:
        same = False
    ms = _call(mod.compile, pats, flags=fl, exclude=ex)
    mb = _call(mod.compile, enc(pats), flags=fl, exclude=enc(ex))
    if ms[0] != 'ok' or mb[0] != 'ok':
        if ms != mb:
            res.add_violation(ID, run.viol('compile-differs', inp, ms[:2] if ms[0] == 'exc' else 'ok',
                                           mb[:2] if mb[0] == 'exc' else 'ok'))
        return
    ws, wb = impl.wcregexp(ms[1]), impl.wcregexp(mb[1])
    try:
        eq = ([enc(r.pattern) for r in ws._include] == [r.pattern for r in wb._include] and
              [enc(r.pattern) for r in ws._exclude or ()] == [r.pattern for r in wb._exclude or ()])
    except UnicodeEncodeError:
        eq = False
    if eq and same:
        return
    # texts differ (e.g. the unicode range of an emptied bracket): compare over ASCII minterms, same code unit
    res.n['distinct_nontrivial'] += 1
    try:
        i1, e1 = impl.nfas(ws)
        i2, e2 = impl.nfas(wb)
    except sre_aut.Unsupported:
        res.n['fallback_cases'] += 1
        return
    # Latin-1 code points and the bytes of the same value; with case-insensitive matching only ASCII (cased non-ASCII
    # characters fold in str mode and cannot in bytes mode - outside the statement)
    ic = ('I' in fs or 'W' in fs) and 'C' not in fs
    al = [c for c in alphabet.minterms(impl.atoms(i1 + e1 + i2 + e2), True) if c < (128 if ic else 256)]
    a1 = impl.automaton(i1, e1, al)
    a2 = impl.automaton(i2, e2, al)

    def chk(accs, w):
        return 'diff' if accs[0] != accs[1] and w else None

    ns, nt, seen, bad = product.explore([a1, a2], len(al), chk)
    res.n['states'] += ns
    res.n['transitions'] += nt
    for P, w in seen.items():
        if not w:
            continue
        s = alphabet.to_text(w, al, False)
        res.n['traces_validated_against_impl'] += 1
        try:
            real = (bool(ws.match(s)), bool(wb.match(s.encode('latin-1'))))
        except Exception as e:  # noqa: BLE001
            res.add_violation(ID, run.viol('language-differs', dict(inp, name=s), {'str': 'a boolean'}, {'bytes': type(e).__name__}))
            return
        if real != (a1.accepting(P[0]), a2.accepting(P[1])):
            res.n['fallback_cases'] += 1
            return
    res.outcomes.add('aut-equal' if not bad else 'aut-differ')
    if bad:
        tag, w, accs = min(bad, key=lambda b: (len(b[1]), b[1]))
        name = alphabet.to_text(w, al, False)
        res.add_violation(ID, run.viol('language-differs', dict(inp, name=name), {'str': accs[0]}, {'bytes': accs[1]}))


ESC_ALPHA = '*?[]()|{}\\/.~-!a\n'


def _drive_strings():
    from . import c09
    out = []
    for sh in c09.DRIVE_SHAPES + ['c:\\\\file.txt', 'c:\\\\', '\\\\\\\\h\\\\s\\\\x', 'c:/a\\\\b', '//h/s\\\\']:
        out.append(sh)
        out.append(sh.replace('/', '\\'))
    return sorted(set(out))


def check_escape(maxlen, res, sh, ns):
    k = 0
    todo = [tup for L in range(1, maxlen + 1) for tup in itertools.product(ESC_ALPHA, repeat=L)]
    todo += [tuple(x) for x in _drive_strings() if all(ord(c) < 256 for c in x)]
    for _ in (0,):
        for tup in todo:
            k += 1
            if k % ns != sh:
                continue
            s = ''.join(tup)
            b = s.encode('latin-1')
            res.n['evaluations'] += 1
            res.n['distinct_nontrivial'] += 1
            for name, fs, fb in (('fnmatch.escape', F.escape, F.escape), ('glob.escape', G.escape, G.escape)):
                for kw in ({}, {'unix': True}, {'unix': False}) if name == 'glob.escape' else ({},):
                    a, c = _call(fs, s, **kw), _call(fb, b, **kw)
                    ok = a[0] == c[0] and (a[0] == 'exc' or enc(a[1]) == c[1])
                    res.outcomes.add('escape-equal' if ok else 'escape-differ')
                    if not ok:
                        res.add_violation(ID, run.viol('escape-differs', {'fn': name, 's': s, 'kw': kw}, a, c))
            for fl, fname in ((0, ''), (F.E | F.N | F.B | F.S, 'ENBS'), (F.W | F.E, 'WE'), (F.N | F.M, 'NM')):
                for mod, mn in ((F, 'fn'), (G, 'glob')):
                    a, c = _call(mod.is_magic, s, flags=fl), _call(mod.is_magic, b, flags=fl)
                    if a != c:
                        res.add_violation(ID, run.viol('is_magic-differs', {'mode': mn, 's': s, 'flags': fname}, a, c))
    res.samples.append({'escape': '[a]*'})


NEG_LISTS = [['!a'], ['!a', '!b*'], ['-a'], ['!*.a', '!.h']]


def check_negateall(res):
    """All-exclusion lists (the implicit match-everything inclusion is synthesised by the library): str == bytes."""
    for mod, mn in ((F, 'fn'), (G, 'glob')):
        for pl in NEG_LISTS:
            for fl, fname in ((mod.NEGATE | mod.NEGATEALL, 'NA'), (mod.NEGATE | mod.NEGATEALL | mod.MINUSNEGATE, 'NAM'),
                              (mod.NEGATE | mod.NEGATEALL | mod.DOTMATCH, 'NAD')):
                for name in ('a', 'b', 'ba', '.h', 'x.a', 'c'):
                    res.n['evaluations'] += 1
                    res.n['distinct_nontrivial'] += 1
                    match = mod.globmatch if mn == 'glob' else mod.fnmatch
                    a = _call(match, name, pl, flags=fl)
                    b = _call(match, name.encode(), [p.encode() for p in pl], flags=fl)
                    c = _call(lambda: bool(mod.compile([p.encode() for p in pl], flags=fl).match(name.encode())))
                    res.outcomes.add('negateall-equal' if a == b == c else 'negateall-differ')
                    if not (a == b == c):
                        res.add_violation(ID, run.viol('negateall-bytes', {'mode': mn, 'patterns': pl, 'flags': fname, 'name': name}, a, {'bytes': b, 'compiled': c}))
    import tempfile as _t
    import shutil as _s
    root = _t.mkdtemp(prefix='vfc18n_', dir=bind.scratch_base())
    try:
        for f in ('a.py', 'b.txt'):
            open(os.path.join(root, f), 'w').close()
        for pattern in ('!*.py', '!a*|!zz', '-b*'):
            res.n['evaluations'] += 1
            wf = WM.RECURSIVE | (WM.MINUSNEGATE if pattern.startswith('-') else 0)
            a = _call(lambda: sorted(os.path.basename(x) for x in WM.WcMatch(root, pattern, flags=wf).match()))
            b = _call(lambda: sorted(os.path.basename(x).decode() for x in WM.WcMatch(os.fsencode(root), pattern.encode(), flags=wf).match()))
            if a != b:
                res.add_violation(ID, run.viol('negateall-bytes', {'mode': 'WcMatch', 'patterns': [pattern], 'flags': 'RV', 'name': ''}, a, {'bytes': b}))
    finally:
        _s.rmtree(root, ignore_errors=True)


def check_mixed(res):
    """str name/root with bytes pattern (or the reverse) raises TypeError."""
    root = tempfile.mkdtemp(prefix='vfc18_', dir=bind.scratch_base())
    try:
        open(os.path.join(root, 'a'), 'w').close()
        calls = {
            'fnmatch': lambda p, n: F.fnmatch(n, p),
            'filter': lambda p, n: F.filter([n], p),
            'fn.compile.match': lambda p, n: F.compile(p).match(n),
            'globmatch': lambda p, n: G.globmatch(n, p),
            'globfilter': lambda p, n: G.globfilter([n], p),
            'glob.compile.match': lambda p, n: G.compile(p).match(n),
            'globmatch-realpath': lambda p, n: G.globmatch(n, p, flags=G.REALPATH, root_dir=root if isinstance(n, str) else os.fsencode(root)),
            'fnmatch-list': lambda p, n: F.fnmatch(n, [p, p]),
            'exclude-mix': lambda p, n: F.fnmatch(n, type(n)() + (b'*' if isinstance(n, bytes) else '*'), exclude=p),
            # exclusions only: no inclusion regex ever touches the name
            'fnmatch-negation-only': lambda p, n: F.fnmatch(n, (b'!' if isinstance(p, bytes) else '!') + p, flags=F.NEGATE),
            'filter-negation-only': lambda p, n: F.filter([n], (b'!' if isinstance(p, bytes) else '!') + p, flags=F.NEGATE),
            'globmatch-negation-only': lambda p, n: G.globmatch(n, (b'!' if isinstance(p, bytes) else '!') + p, flags=G.NEGATE),
            'globmatch-negateall': lambda p, n: G.globmatch(n, (b'!' if isinstance(p, bytes) else '!') + p, flags=G.NEGATE | G.NEGATEALL),
        }
        for name, fn in calls.items():
            for p, n in (('a*', b'a'), (b'a*', 'a'), ('a*', b''), (b'a*', '')):
                if not n and name in ('filter', 'globfilter', 'filter-negation-only', 'globmatch-realpath', 'exclude-mix'):
                    continue
                res.n['evaluations'] += 1
                res.n['distinct_nontrivial'] += 1
                r = _call(fn, p, n)
                ok = r == ('exc', 'TypeError')
                res.outcomes.add('mixed-typeerror' if ok else 'mixed-other')
                if not ok:
                    res.add_violation(ID, run.viol('mixed-types', {'call': name, 'pattern': p, 'name': n},
                                                   ('exc', 'TypeError'), r if r[0] == 'exc' else ('ok', repr(r[1])[:60])))
        # REALPATH with a root of the other type: also for absolute names, existing or not
        for nm, r_ in ((os.path.join(root, 'a'), os.fsencode(root)), (os.fsencode(os.path.join(root, 'a')), root),
                       ('/nonexistent-vf/zz', os.fsencode(root)), (b'/nonexistent-vf/zz', root), ('zz', os.fsencode(root))):
            for cname, fn in (('globmatch-abs', lambda: G.globmatch(nm, nm[:0] + ('*' if isinstance(nm, str) else b'*'), flags=G.REALPATH, root_dir=r_)),
                              ('globfilter-abs', lambda: G.globfilter([nm], nm[:0] + ('**' if isinstance(nm, str) else b'**'), flags=G.REALPATH | G.GLOBSTAR, root_dir=r_)),
                              ('compiled-abs', lambda: G.compile(nm[:0] + ('*' if isinstance(nm, str) else b'*'), flags=G.REALPATH).match(nm, root_dir=r_))):
                res.n['evaluations'] += 1
                r = _call(fn)
                ok = r == ('exc', 'TypeError')
                res.outcomes.add('mixed-typeerror' if ok else 'mixed-other')
                if not ok:
                    res.add_violation(ID, run.viol('mixed-types', {'call': cname, 'name_kind': 'abs-missing' if b'nonexistent' in os.fsencode(nm) else 'other',
                                                                    'name_is_bytes': isinstance(nm, bytes)},
                                                   ('exc', 'TypeError'), r if r[0] == 'exc' else ('ok', repr(r[1])[:60])))
        for p, r_ in (('a*', os.fsencode(root)), (b'a*', root), ('a*', b''), (b'a*', ''), ('*', b''), (b'*', '')):
            for cname, fn in (('glob', lambda: G.glob(p, root_dir=r_)), ('iglob', lambda: list(G.iglob(p, root_dir=r_))),
                              ('globmatch-root', lambda: G.globmatch(p[:1], p, flags=G.REALPATH, root_dir=r_)),
                              ('WcMatch', lambda: WM.WcMatch(r_, p).match())):
                res.n['evaluations'] += 1
                r = _call(fn)
                ok = r == ('exc', 'TypeError')
                res.outcomes.add('mixed-typeerror' if ok else 'mixed-other')
                if not ok:
                    res.add_violation(ID, run.viol('mixed-types', {'call': cname, 'pattern': p, 'root_is_bytes': isinstance(r_, bytes)},
                                                   ('exc', 'TypeError'), r if r[0] == 'exc' else ('ok', repr(r[1])[:60])))
    finally:
        shutil.rmtree(root, ignore_errors=True)


TREE = ['a', 'b.a', '.h', 'd/', 'd/a', 'd/.h', 'd/e/', 'd/e/a', 'A', 'caf\xe9', 'd/\xe9\xff', 'l\xe9/', 'l\xe9/a', 'l\xe9/s/',
        'k -> d']
WALK_PATS = ['*', '**', '**/a', 'd/*', '*/', '.*', '**/.*', '[a-b]*', 'caf[\xe9]', 'caf\xe9', '*[\x80-\xff]*', 'd/[!a]*',
             '@(a|b.a)', '!(a)', '**/*\xff', '{a,A}', 'a|A',
             # a non-ASCII byte in a directory segment; zero-segment results of a trailing globstar; doubled separators;
             # base-name matching through links
             'l\xe9/*', '?\xe9/*/', '*\xe9/**', 'd/**', '*/**', 'd/**/', 'k/**', 'd//a', '*//', 'a', 'e',
             # exclusions only (a literal `!` without NEGATE; everything-except under NEGATEALL)
             '!a', '!**/a', '!d/*']
WALK_FLAGS = ['GE', 'GDE', 'GEK', 'GEBS', 'GEO', 'GEI', 'LEFX', 'GEXK', 'GEF', 'GENA', 'ENA']
GLW = dict(GL, K=G.MARK, F=G.FOLLOW)


def check_walk(res):
    root = tempfile.mkdtemp(prefix='vfc18w_', dir=bind.scratch_base())
    broot = os.fsencode(root)
    try:
        for t in TREE:
            if ' -> ' in t:
                os.symlink(t.split(' -> ')[1], os.path.join(root, t.split(' -> ')[0]))
                continue
            bp = os.path.join(broot, t.encode('latin-1'))
            if t.endswith('/'):
                os.makedirs(bp, exist_ok=True)
            else:
                os.makedirs(os.path.dirname(bp), exist_ok=True)
                open(bp, 'w').close()
        for p in WALK_PATS:
            bpat = p.encode('latin-1')
            spat = os.fsdecode(bpat)
            for fs in WALK_FLAGS:
                fl = 0
                for ch in fs:
                    fl |= GLW[ch]
                res.n['evaluations'] += 1
                res.n['distinct_nontrivial'] += 1
                a = _call(G.glob, spat, flags=fl, root_dir=root)
                b = _call(G.glob, bpat, flags=fl, root_dir=broot)
                ok = a[0] == b[0] and (a[0] == 'exc' and a == b or a[0] == 'ok' and [os.fsencode(x) for x in a[1]] == b[1])
                res.outcomes.add('walk-equal' if ok else 'walk-differ')
                if not ok:
                    res.add_violation(ID, run.viol('glob-bytes', {'pattern': bpat, 'flags': fs, 'tree': TREE},
                                                   [os.fsencode(x) for x in a[1]] if a[0] == 'ok' else a, b[1] if b[0] == 'ok' else b))
                    continue
                # the same through a directory descriptor, str and bytes
                fd = os.open(root, os.O_RDONLY | os.O_DIRECTORY)
                try:
                    c = _call(G.glob, spat, flags=fl, dir_fd=fd)
                    d = _call(G.glob, bpat, flags=fl, dir_fd=fd)
                finally:
                    os.close(fd)
                res.n['evaluations'] += 1
                srt = lambda r: (r[0], sorted(r[1])) if r[0] == 'ok' else r  # noqa: E731
                if srt(c) != srt(a) or srt(d) != srt(b):
                    res.add_violation(ID, run.viol('glob-bytes', {'pattern': bpat, 'flags': fs, 'tree': TREE, 'root': 'dir_fd'},
                                                   {'str': srt(a), 'bytes': srt(b)}, {'str': srt(c), 'bytes': srt(d)}))
            # WcMatch
            for wf, wn in ((WM.RECURSIVE | WM.HIDDEN, 'RV|HD'), (WM.RECURSIVE, 'RV'), (WM.RECURSIVE | WM.FILEPATHNAME | WM.GLOBSTAR, 'RV|FP|G')):
                if '/' in p and not wf & WM.FILEPATHNAME:
                    continue
                res.n['evaluations'] += 1
                a = _call(lambda: WM.WcMatch(root, spat, flags=wf | WM.EXTMATCH).match())
                b = _call(lambda: WM.WcMatch(broot, bpat, flags=wf | WM.EXTMATCH).match())
                ok = a[0] == b[0] and (a[0] == 'exc' and a == b or a[0] == 'ok' and [os.fsencode(x) for x in a[1]] == b[1])
                res.outcomes.add('wcmatch-equal' if ok else 'wcmatch-differ')
                if not ok:
                    rel = lambda xs: [os.path.relpath(x, broot) for x in xs]  # noqa: E731
                    res.add_violation(ID, run.viol('wcmatch-bytes', {'pattern': bpat, 'flags': wn, 'tree': TREE},
                                                   rel([os.fsencode(x) for x in a[1]]) if a[0] == 'ok' else a,
                                                   rel(b[1]) if b[0] == 'ok' else b))
        res.samples.append({'walk_pattern': 'caf[\\xe9]', 'tree': TREE})
    finally:
        shutil.rmtree(root, ignore_errors=True)


RAW_ALPHA = '\\x4Aa1*[7/'


def check_raw(first, maxlen, res):
    """RAWCHARS: escapes that denote ASCII characters decode identically for str and bytes patterns."""
    from . import c20
    for L in range(1, maxlen + 1):
        for tup in itertools.product(RAW_ALPHA, repeat=L - 1):
            p = first + ''.join(tup)
            if '\\' not in p:
                continue
            r = c20._ref(p, False)
            if r[0] == 'ok' and any(ord(c) > 127 for c in r[1]):
                continue
            for mode, fs in (('fn', 'ER'), ('glob', 'GER'), ('glob', 'GERW')):
                check_text(mode, p, None, fs, res)
                res.n['distinct_nontrivial'] += 1
    res.samples.append({'raw': first + 'x4A*'})


# ---------------------------------------------------------------- planning

# brackets emptied by reversed ranges (the library substitutes a full-range class whose upper end differs between str and
# bytes), Latin-1 members, and `!(` under NEGATE: forms the generated menus do not contain
ODD_PATS = ['[z-a]', '[!z-a]', '[^z-a]', 'x[!b-a]*', '[!z-ab-a]', '[z-a\xe9]', '[!z-a\xe9]', '[\xe9-\xff]', '[!\xe9]', '\xe9*',
            '[[:alpha:]\xe9]', '[![:alpha:]]', '@([z-a]|a)', '@([!z-a])', '!([z-a])', '!(a)', '!(a|b)', '!(a)|!c', '-(a)', '!\\(a)',
            '[!z-a]/[z-a]', '**/[!z-a]', '?', '[!\x80-\xff]', '[\x00-\x7f]', '+([!z-a])',
            # escaped slashes / backslashes, which the Windows rules rewrite before parsing
            'a\\/b', '@(a\\/b)', 'a\\\\b', '@(a\\\\b|c)', '[\\/]', '*\\/', 'a\\/\\/b']
ODD_FN_FLAGS = ['E', 'DE', 'NE', 'NDE', 'NME', 'NES', 'NEA', '', 'EW', 'DEW']
ODD_GL_FLAGS = ['GE', 'GDE', 'GNE', 'GNDE', 'GNME', 'GNES', 'GNEA', 'GEO', 'GEW', 'GDEW']
TEXT_FN_FLAGS = ['E', 'DE', 'EI', 'ER', 'EW', '', 'DEC']
TEXT_GL_FLAGS = ['GE', 'GDE', 'GXE', 'GEZ', 'GEO', 'GEW', 'GLEI', 'GER']


def plan(tier, seed):
    chunks = []
    NS = 32
    b_fn, b_gl, esc_len, nlist = ([1, 2, 3], [1, 2, 3], 3, 2) if tier == 'quick' else ([1, 2, 3, 4], [1, 2, 3], 4, 3)
    for mode, budgets in (('fn', b_fn), ('glob', b_gl)):
        for b in budgets:
            for sh in range(NS):
                chunks.append(('text', mode, b, sh, NS))
    for sh in range(NS):
        chunks.append(('perbyte', sh, NS))
        chunks.append(('escape', esc_len, sh, NS))
    for mode in ('fn', 'glob'):
        for sh in range(8):
            chunks.append(('lists', mode, nlist, sh, 8))
    chunks.append(('mixed',))
    chunks.append(('odd',))
    chunks.append(('walk',))
    for c1 in RAW_ALPHA:
        chunks.append(('raw', c1, 4 if tier == 'quick' else 5))
    return {
        'chunks': chunks,
        'coverage': {'fn_budgets': b_fn, 'glob_budgets': b_gl, 'fn_flagsets': TEXT_FN_FLAGS, 'glob_flagsets': TEXT_GL_FLAGS,
                     'escape_alphabet': ESC_ALPHA, 'escape_max_len': esc_len, 'walk_tree': TREE, 'walk_patterns': WALK_PATS,
                     'exhaustive': True},
        'rule': 'every generated ASCII pattern (C01 full + core menus, C02 menu) and every C07-style list x flag sets: '
                'translate/compile regex texts of the bytes call equal the encoded texts of the str call (else automata '
                'compared); every bracket/POSIX form in bytes mode against the per-byte reference (product exploration, '
                'byte alphabet incl. 0x80-0xff); every string up to the stated length for escape/is_magic; non-trivial = '
                'instances needing a product exploration plus per-byte instances plus escape strings',
        'assumptions': ['identical regex text has identical meaning on ASCII subjects in str and bytes mode'],
        'nontrivial_floor': 200,
    }


def run_chunk(chunk):
    res = run.ChunkResult()
    kind = chunk[0]
    if kind == 'text':
        from . import c01, c02
        _k, mode, budget, sh, ns = chunk
        if mode == 'fn':
            core, full = c01.menus()
            lv, inner = (full if budget <= 2 else core), None
            flagsets = TEXT_FN_FLAGS
        else:
            top, topx, inner = c02.menus()
            lv = topx if budget <= 2 else top
            flagsets = TEXT_GL_FLAGS
        k = 0
        for seq in pat.gen(budget, lv, ext=True, depth=1, max_alts=2, inner=inner):
            k += 1
            if k % ns != sh:
                continue
            text = pat.render(seq)
            for fs in flagsets:
                check_text(mode, text, None, fs, res)
            if k % 499 == 0:
                res.samples.append({'mode': mode, 'pattern': text})
    elif kind == 'perbyte':
        from . import c01
        _k, sh, ns = chunk
        core, full = c01.menus()
        k = 0
        for budget in (1, 2):
            for seq in pat.gen(budget, full, ext=True, depth=1, max_alts=2):
                k += 1
                if k % ns != sh:
                    continue
                for fs in ('DE', 'E', 'DEI'):
                    before = res.n['evaluations']
                    c01.check_instance(seq, fs, res, api_level=0, is_bytes=True)
        # relabel C01's violations as this property's
        res.samples.append({'perbyte': '[[:alpha:]] vs 0x80..0xff'})
    elif kind == 'escape':
        check_escape(chunk[1], res, chunk[2], chunk[3])
    elif kind == 'lists':
        from . import c08
        _k, mode, nlist, sh, ns = chunk
        pool = c08.LIST_POOL_GL if mode == 'glob' else c08.LIST_POOL_FN
        fsets = c08.LIST_FLAGS_GL if mode == 'glob' else c08.LIST_FLAGS_FN
        k = 0
        for n in range(1, nlist + 1):
            for combo in itertools.product(pool, repeat=n):
                for ex in [None] + pool[:4]:
                    k += 1
                    if k % ns != sh:
                        continue
                    for fs in fsets:
                        check_text(mode, list(combo) if n > 1 else combo[0], ex, fs, res)
        res.samples.append({'list': pool[:2]})
    elif kind == 'raw':
        check_raw(chunk[1], chunk[2], res)
    elif kind == 'odd':
        for p in ODD_PATS:
            for mode, fsets in (('fn', ODD_FN_FLAGS), ('glob', ODD_GL_FLAGS)):
                for fs in fsets:
                    check_text(mode, p, None, fs, res)
        res.samples.append({'odd': ODD_PATS[:4]})
    elif kind == 'mixed':
        check_mixed(res)
        check_negateall(res)
    elif kind == 'walk':
        check_walk(res)
    impl.clear()
    return res


def replay(v):
    inp = v['input']
    kind = v['kind']
    if kind in ('translate-differs', 'compile-differs', 'language-differs'):
        mod = G if inp['mode'] == 'glob' else F
        fl = flags_of(inp['mode'], inp['flags'])
        if kind == 'language-differs':
            match = mod.globmatch if inp['mode'] == 'glob' else mod.fnmatch
            a = _call(match, inp['name'], inp['patterns'], flags=fl, exclude=inp['exclude'])
            b = _call(match, enc(inp['name']), enc(inp['patterns']), flags=fl, exclude=enc(inp['exclude']))
            return {'violates': a != b, 'observed': {'str': a, 'bytes': b}}
        fn = mod.translate if kind == 'translate-differs' else (lambda *a, **k: [r.pattern for r in impl.wcregexp(mod.compile(*a, **k))._include])
        a = _call(fn, inp['patterns'], flags=fl, exclude=inp['exclude'])
        b = _call(fn, enc(inp['patterns']), flags=fl, exclude=enc(inp['exclude']))
        if a[0] != b[0]:
            return {'violates': True, 'observed': [a, b]}
        if a[0] == 'exc':
            return {'violates': a != b, 'observed': [a, b]}
        try:
            same = enc(list(a[1]) if kind == 'compile-differs' else [list(a[1][0]), list(a[1][1])]) == \
                (list(b[1]) if kind == 'compile-differs' else [list(b[1][0]), list(b[1][1])])
        except UnicodeEncodeError:
            same = False
        return {'violates': not same, 'observed': b}
    if kind == 'escape-differs':
        fn = F.escape if inp['fn'] == 'fnmatch.escape' else G.escape
        a, b = _call(fn, inp['s'], **inp['kw']), _call(fn, inp['s'].encode('latin-1'), **inp['kw'])
        return {'violates': not (a[0] == b[0] and (a[0] == 'exc' or enc(a[1]) == b[1])), 'observed': b}
    if kind == 'is_magic-differs':
        mod = G if inp['mode'] == 'glob' else F
        fl = flags_of(inp['mode'], inp['flags'])
        a, b = _call(mod.is_magic, inp['s'], flags=fl), _call(mod.is_magic, inp['s'].encode('latin-1'), flags=fl)
        return {'violates': a != b, 'observed': b}
    if kind == 'negateall-bytes':
        r = run.ChunkResult()
        check_negateall(r)
        hit = [x for x in r.viol if x['input'] == run.jsonable(inp)]
        return {'violates': bool(hit), 'observed': hit[0]['observed'] if hit else 'ok'}
    if kind in ('mixed-types', 'glob-bytes', 'wcmatch-bytes'):
        r = run.ChunkResult()
        (check_mixed if kind == 'mixed-types' else check_walk)(r)
        hit = [x for x in r.viol if x['kind'] == kind and x['input'] == run.jsonable(inp)]
        return {'violates': bool(hit), 'observed': hit[0]['observed'] if hit else 'ok'}
    if kind == 'lang':
        from . import c01
        return c01.replay(v)
    raise ValueError(kind)
