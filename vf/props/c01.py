"""C01 - file-name matching follows the documented wildcard language.

For every generated fnmatch-mode pattern x flag set, the product of (automaton of the regexes fnmatch executes)
x (reference automaton built from the pattern's AST) x (domain tracker) is explored exhaustively; every
reachable state must satisfy  in_domain => (impl accepts <=> reference accepts).  This decides the property
for all names of all lengths.  Every explored state's shortest witness is replayed on the public API.
"""
from .. import bind, run, pat, ref_aut, impl, alphabet, product, sre_aut, langcmp
from wcmatch import fnmatch as F

ID = 'C01'
LEVEL = 'model_checking'

FLAG_NAMES = {'D': F.DOTMATCH, 'E': F.EXTMATCH, 'I': F.IGNORECASE, 'C': F.CASE, 'U': F.FORCEUNIX}


def flags_of(s):
    f = 0
    for ch in s:
        f |= FLAG_NAMES[ch]
    return f


ALL_FLAGSETS = [d + e + c + u for d in ('', 'D') for e in ('E', '') for c in ('', 'I', 'C', 'IC') for u in ('', 'U')]
CORE_FLAGSETS = ['DE', 'E', 'DEI', 'EI', 'D', '']


def mode_of(fs, is_bytes=False):
    ic = 'I' in fs and 'C' not in fs
    return ref_aut.Mode(ic=ic, path=False, win=False, is_bytes=is_bytes)


def check_instance(seq, fs, res, api_level=1, is_bytes=False):
    """Decide one (pattern AST, flag set). Returns list of violation dicts."""
    text = pat.render(seq)
    flags = flags_of(fs)
    ext = 'E' in fs
    ast = seq if ext else pat.desugar(seq)
    if ext and not pat.neg_ok(ast):
        res.notes['skipped_negation_shape'] += 1
        return
    mode = mode_of(fs, is_bytes)
    ptext = text.encode('latin-1') if is_bytes else text
    try:
        m = F.compile(ptext, flags=flags)
    except Exception as e:  # noqa: BLE001 - C10's business, but record
        res.notes['compile_exception_' + type(e).__name__] += 1
        res.add_violation(ID, run.viol('compile-exception', {'pattern': ptext, 'flags': fs}, 'compiles',
                                       {'exc': type(e).__name__, 'msg': str(e)[:100]}))
        return
    res.n['evaluations'] += 1
    try:
        inc, exc = impl.nfas(m)
    except sre_aut.Unsupported as e:
        res.notes['unsupported'] += 1
        return _fallback(seq, ast, fs, m, mode, res, text, 'unsupported: %s' % e)
    al = alphabet.minterms(impl.atoms(inc + exc) + ref_aut.collect_atoms(ast, mode) + ref_aut.base_atoms(mode),
                           is_bytes, any_ic=mode.ic)
    I = impl.automaton(inc, exc, al)
    R = ref_aut.fnmatch_ref(ast, al, mode)[0]
    dot = al.index(0x2e)
    dm = 'D' in fs
    D = ref_aut.Domain(lambda s: s != -1 and (dm or s != dot))

    def chk(accs, w):
        if accs[2] and accs[0] != accs[1]:
            return 'lang'
        return None

    ns, nt, seen, bad = product.explore([I, R, D], len(al), chk)
    res.n['states'] += ns
    res.n['transitions'] += nt
    # conformance: replay every explored state on the real matcher object (public API)
    acc_in = rej_in = 0
    for P, w in seen.items():
        if not w:
            continue
        t = alphabet.to_text(w, al, is_bytes)
        real = m.match(t)
        res.n['traces_validated_against_impl'] += 1
        if real != I.accepting(P[0]):
            res.divergences.append({'pattern': text, 'flags': fs, 'name': t, 'real': real})
            res.notes['divergence'] += 1
            return _fallback(seq, ast, fs, m, mode, res, text, 'divergence')
        if D.accepting(P[2]):
            if real:
                acc_in += 1
            else:
                rej_in += 1
        # the matcher applies its regex lists to the whole name: the same witness followed by a newline
        tn = t + (b'\n' if is_bytes else '\n')
        truth = langcmp.regex_accepts(m, tn)
        res.n['traces_validated_against_impl'] += 1
        if bool(m.match(tn)) != truth:
            res.add_violation(ID, run.viol('matcher-application', {'pattern': ptext, 'flags': fs, 'name': tn}, {'match': truth},
                                           {'match': bool(m.match(tn))}))
            return
    if acc_in and rej_in:
        res.n['distinct_nontrivial'] += 1
    res.outcomes.add('agree' if not bad else 'disagree')
    bad.sort(key=lambda b: (len(b[1]), b[1]))
    for tag, w, accs in bad[:4]:
        name = alphabet.to_text(w, al, is_bytes)
        v = run.viol('lang', {'pattern': ptext, 'flags': fs, 'name': name}, {'match': accs[1]}, {'match': accs[0]},
                     'states=%d' % ns)
        v['ast'] = repr(ast)
        res.add_violation(ID, v)
    if api_level and len(seen) > 1:
        # the other public entry points on two witnesses
        ws = [w for w in seen.values() if w][:2]
        for w in ws:
            t = alphabet.to_text(w, al, is_bytes)
            a = F.fnmatch(t, ptext, flags=flags)
            b = bool(F.filter([t], ptext, flags=flags))
            c = m.match(t)
            res.n['traces_validated_against_impl'] += 2
            if not (a == b == c):
                res.add_violation(ID, run.viol('api-disagree', {'pattern': ptext, 'flags': fs, 'name': t},
                                               {'all_equal': True}, {'fnmatch': a, 'filter': b, 'compiled': c}))


def _fallback(seq, ast, fs, m, mode, res, text, why):
    """Bounded enumeration on the real code against the reference (DESIGN 3.6)."""
    import itertools
    res.n['fallback_cases'] += 1
    al = alphabet.minterms(ref_aut.collect_atoms(ast, mode) + ref_aut.base_atoms(mode), mode.is_bytes, any_ic=mode.ic)
    R = ref_aut.fnmatch_ref(ast, al, mode)[0]
    dot = al.index(0x2e)
    dm = 'D' in fs
    for L in range(1, 5):
        for tup in itertools.product(range(len(al)), repeat=L):
            if not dm and tup[0] == dot:
                continue
            S = R.init
            for ci in reversed(tup):
                S = R.step(S, ci)
            t = alphabet.to_text(tup, al, mode.is_bytes)
            res.n['traces_validated_against_impl'] += 1
            real = m.match(t)
            if real != R.accepting(S):
                v = run.viol('lang', {'pattern': text, 'flags': fs, 'name': t}, {'match': R.accepting(S)},
                             {'match': real}, 'fallback:' + why)
                v['ast'] = repr(ast)
                res.add_violation(ID, v)
                return


# ---------------------------------------------------------------- planning

def menus():
    core = pat.leaves('a.', pat.BR_CORE)
    full = pat.leaves('ab.A', pat.BR_FULL, pat.ESC_LITS)
    return core, full


def plan(tier, seed):
    chunks = []
    layers = []
    NS = 64

    def add(name, menu, budgets, flagsets, depth, max_alts, residue=None, kinds='?*+@!'):
        for b in budgets:
            for sh in range(NS):
                chunks.append((name, menu, b, tuple(flagsets), depth, max_alts, sh, NS, residue, kinds))
        layers.append({'layer': name, 'menu': menu, 'budgets': list(budgets), 'flagsets': list(flagsets),
                       'nesting': depth, 'max_alts': max_alts, 'exhaustive': residue is None,
                       'residue': residue})

    if tier == 'quick':
        add('full-menu', 'full', [1, 2], ALL_FLAGSETS, 1, 2)
        add('core', 'core', [1, 2, 3], ALL_FLAGSETS, 2, 2)
        add('core-b4', 'core', [4], ['DE', 'E'], 1, 2)
    else:
        add('full-menu', 'full', [1, 2], ALL_FLAGSETS, 2, 3)
        add('core', 'core', [1, 2, 3], ALL_FLAGSETS, 3, 3)
        add('core-b4', 'core', [4], CORE_FLAGSETS, 3, 2)
        add('core-b5', 'core', [5], ['DE', 'E'], 2, 2, residue=(seed % 8, 8))
    # the bytes copies of the bracket / POSIX tables: full menu, one and two tokens
    for sh in range(8):
        chunks.append(('bytes', 'full', 2, ('DE', 'E'), 1, 2, sh, 8, None, '?*+@!'))
    layers.append({'layer': 'bytes', 'menu': 'full', 'budgets': [1, 2], 'flagsets': ['DE', 'E'], 'nesting': 1, 'max_alts': 2,
                   'exhaustive': True, 'residue': None})
    chunks.append(('selftest',))
    return {
        'chunks': chunks,
        'coverage': {'layers': layers, 'exhaustive': True},
        'rule': 'every pattern AST of the stated token budget over the stated leaf menu x flag set; per instance the '
                'full reachable product (impl x reference x domain) is explored, so names are unbounded; '
                'non-trivial = instance with at least one accepted and one rejected in-domain product state',
        'assumptions': [
            'CPython re._parser yields the tree re.compile executes; translation bound by replaying every state',
            'cased non-ASCII code points are outside the claim under IGNORECASE',
            '!(..) is compared only in the shapes the statement commits to (top level, negation-free alternatives, '
            'followed only by literal text)',
        ],
        'nontrivial_floor': 500,
    }


def run_chunk(chunk):
    res = run.ChunkResult()
    if chunk[0] == 'selftest':
        # the regex -> automaton translation against CPython's engine on all short strings (harness self-check)
        from .. import selftest
        import io
        import contextlib
        buf = io.StringIO()
        with contextlib.redirect_stdout(buf):
            bad = selftest.conformance(4)
        if bad:
            raise run.HarnessError('regex->automaton translation disagrees with re: ' + buf.getvalue()[-500:])
        res.n['translation_selftest_strings'] += int(buf.getvalue().split()[2])
        return res
    name, menu, budget, flagsets, depth, max_alts, sh, ns, residue, kinds = chunk
    core, full = menus()
    lv = core if menu == 'core' else full
    k = 0
    gens = [pat.gen(b, lv, ext=True, depth=depth, max_alts=max_alts, kinds=kinds) for b in ((1, 2) if name == 'bytes' else (budget,))]
    for seq in (x for g in gens for x in g):
        k += 1
        if k % ns != sh:
            continue
        text = pat.render(seq)
        if residue is not None and run.residue(text, residue[1]) != residue[0]:
            continue
        grouped = pat.has_ext(seq)
        for fs in flagsets:
            if 'E' not in fs and grouped and budget > 3:
                continue
            check_instance(seq, fs, res, is_bytes=(name == 'bytes'))
        if k % 997 == 0:
            res.samples.append({'pattern': text, 'flagsets': list(flagsets)[:3]})
    impl.clear()
    return res


def replay(v):
    inp = v['input']
    p = inp['pattern']
    flags = flags_of(inp['flags'])
    if v['kind'] == 'compile-exception':
        try:
            F.compile(p, flags=flags)
            return {'violates': False, 'observed': 'compiles'}
        except Exception as e:  # noqa: BLE001
            return {'violates': True, 'observed': type(e).__name__}
    if v['kind'] == 'matcher-application':
        m = F.compile(p, flags=flags)
        got, truth = bool(m.match(inp['name'])), langcmp.regex_accepts(m, inp['name'])
        return {'violates': got != truth, 'observed': {'match': got}}
    got = F.fnmatch(inp['name'], p, flags=flags)
    got2 = bool(F.filter([inp['name']], p, flags=flags))
    got3 = F.compile(p, flags=flags).match(inp['name'])
    if v['kind'] == 'api-disagree':
        return {'violates': not (got == got2 == got3), 'observed': [got, got2, got3]}
    return {'violates': got != v['expected']['match'], 'observed': {'match': got, 'filter': got2, 'compiled': got3}}
