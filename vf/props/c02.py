"""C02 - path matching respects separators, segments, globstar and MATCHBASE.

Same engine as C01 in path mode: product of (executed regexes of glob.compile) x (segment-semantics reference
automaton built from the AST) x (path domain tracker); every reachable state must satisfy
in_domain => (impl accepts <=> reference accepts).  Decides the property for all paths of every length.
"""
from .. import bind, run, pat, ref_aut, impl, alphabet, product, sre_aut, langcmp
from wcmatch import glob as G

ID = 'C02'
LEVEL = 'model_checking'

FLAG_NAMES = {'G': G.GLOBSTAR, 'L': G.GLOBSTARLONG, 'X': G.MATCHBASE, 'D': G.DOTGLOB, 'E': G.EXTGLOB, 'O': G.NODIR,
              'I': G.IGNORECASE, 'C': G.CASE, 'U': G.FORCEUNIX, 'Z': G.NODOTDIR}


def flags_of(s):
    f = 0
    for ch in s:
        f |= FLAG_NAMES[ch]
    return f


def all_subsets(letters):
    out = ['']
    for ch in letters:
        out += [x + ch for x in out]
    return out


ALL_FLAGSETS = all_subsets('GLXDEO')
QUICK_FLAGSETS = ['', 'E', 'GE', 'GDE', 'GXE', 'LE', 'GLDE', 'XDE', 'GEO', 'GXDEO', 'LXE', 'D', 'G', 'XO', 'GLXDEO']


def pflags(fs):
    return ref_aut.PathFlags(globstar='G' in fs, globstarlong='L' in fs, matchbase='X' in fs, dotglob='D' in fs,
                             nodir='O' in fs)


def check_instance(seq, fs, res, text=None, ast=None):
    text = pat.render(seq) if text is None else text
    flags = flags_of(fs)
    ext = 'E' in fs
    if ast is None:
        ast = seq if ext else pat.desugar(seq)
    if ext and not pat.neg_ok(ast):
        res.notes['skipped_negation_shape'] += 1
        return
    mode = ref_aut.Mode(ic='I' in fs and 'C' not in fs, path=True)
    try:
        m = G.compile(text, flags=flags)
    except Exception as e:  # noqa: BLE001
        res.add_violation(ID, run.viol('compile-exception', {'pattern': text, 'flags': fs}, 'compiles',
                                       {'exc': type(e).__name__, 'msg': str(e)[:100]}))
        return
    res.n['evaluations'] += 1
    try:
        inc, exc = impl.nfas(m)
    except sre_aut.Unsupported:
        res.notes['unsupported'] += 1
        res.n['fallback_cases'] += 1
        return
    al = alphabet.minterms(impl.atoms(inc + exc) + ref_aut.collect_atoms(ast, mode) + ref_aut.base_atoms(mode),
                           False, any_ic=mode.ic)
    I = impl.automaton(inc, exc, al)
    pf = pflags(fs)
    PR = ref_aut.PathRef(ast, al, mode, pf)
    R = PR.dfa
    T = ref_aut.PathTracker(al, mode.seps)
    dotglob = pf.dotglob
    rel_gstar = PR.starts_gstar and not PR.absolute
    egs = PR.ends_gstar_slash
    nodir = pf.nodir

    def domain(t):
        hidden, special, nonempty, nonsep, ends_sep, absolute = t
        if not nonempty or not nonsep or special or (hidden and not dotglob):
            return False
        if rel_gstar and absolute:
            return False
        if egs and not ends_sep:
            return False
        return True

    def chk(accs, w):
        t = accs[2]
        if not domain(t):
            return None
        want = accs[1] and not (nodir and t[4])
        if accs[0] != want:
            return 'lang'
        return None

    ns, nt, seen, bad = product.explore([I, R, T], len(al), chk)
    res.n['states'] += ns
    res.n['transitions'] += nt
    acc_in = rej_in = 0
    for P, w in seen.items():
        if not w:
            continue
        t = alphabet.to_text(w, al)
        real = m.match(t)
        res.n['traces_validated_against_impl'] += 1
        if real != I.accepting(P[0]):
            res.divergences.append({'pattern': text, 'flags': fs, 'name': t, 'real': real})
            res.notes['divergence'] += 1
            res.n['fallback_cases'] += 1
            return
        if domain(T.accepting(P[2])):
            if real:
                acc_in += 1
            else:
                rej_in += 1
        # the matcher applies its regex lists to the whole name: the same witness followed by a newline
        tn = t + '\n'
        truth = langcmp.regex_accepts(m, tn)
        res.n['traces_validated_against_impl'] += 1
        if bool(m.match(tn)) != truth:
            res.add_violation(ID, run.viol('matcher-application', {'pattern': text, 'flags': fs, 'name': tn}, {'match': truth},
                                           {'match': bool(m.match(tn))}))
            return
    if acc_in and rej_in:
        res.n['distinct_nontrivial'] += 1
    res.outcomes.add('agree' if not bad else 'disagree')
    bad.sort(key=lambda b: (len(b[1]), b[1]))
    for tag, w, accs in bad[:4]:
        name = alphabet.to_text(w, al)
        want = accs[1] and not (nodir and accs[2][4])
        v = run.viol('lang', {'pattern': text, 'flags': fs, 'name': name}, {'match': want}, {'match': accs[0]},
                     'states=%d' % ns)
        v['ast'] = repr(ast)
        res.add_violation(ID, v)
    if len(seen) > 1:
        for w in [w for w in seen.values() if w][:2]:
            t = alphabet.to_text(w, al)
            a = G.globmatch(t, text, flags=flags)
            b = bool(G.globfilter([t], text, flags=flags))
            c = m.match(t)
            res.n['traces_validated_against_impl'] += 2
            if not (a == b == c):
                res.add_violation(ID, run.viol('api-disagree', {'pattern': text, 'flags': fs, 'name': t},
                                               {'all_equal': True}, {'globmatch': a, 'globfilter': b, 'compiled': c}))


# ---------------------------------------------------------------- planning

SEP1 = ('sep', 1, False)
SEP2 = ('sep', 2, False)
SEPE = ('sep', 1, True)


def menus():
    inner = pat.leaves('a.', pat.BR_CORE)
    top = inner + [('star', 2), ('star', 3), SEP1]
    topx = top + [SEP2, SEPE, ('star', 4)]
    return top, topx, inner


# separator-discipline probes: (text, AST of the intended meaning)
def probes():
    L = pat.lit
    a, b, c = L('a'), L('b'), L('c')
    return [
        ('a[/]b', (a, L('['), SEP1, L(']'), b)),
        ('[a/b]', (L('['), a, SEP1, b, L(']'))),
        ('a[!/]b', (a, L('['), L('!'), SEP1, L(']'), b)),
        ('@(a/b)', (('ext', '@', ((a, SEP1, b),)),)),
        ('@(a/b|c)', (('ext', '@', ((a, SEP1, b), (c,))),)),
        ('*(a/)', (('ext', '*', ((a, SEP1),)),)),
        ('a/@(b|c/)', (a, SEP1, ('ext', '@', ((b,), (c, SEP1))))),
        ('!(a/b)', (('ext', '!', ((a, SEP1, b),)),)),
        # runs of separators count as one, however the members are spelled and whatever stands in front of them
        ('a/\\/b', (a, SEP1, b)),
        ('a\\/\\/b', (a, SEP1, b)),
        ('a\\//b', (a, SEP1, b)),
        ('a/**/**//b', (a, SEP1, ('star', 2), SEP1, ('star', 2), SEP1, b)),
        ('a/**/\\/b', (a, SEP1, ('star', 2), SEP1, b)),
        ('**//**//b', (('star', 2), SEP1, ('star', 2), SEP1, b)),
        ('a/**/**/\\/**/b', (a, SEP1, ('star', 2), SEP1, ('star', 2), SEP1, ('star', 2), SEP1, b)),
        ('*\\//?', (pat.STAR, SEP1, pat.Q)),
        # a group that can be empty still has to consume its whole (non-empty) segment
        ('a/@(|b)/c', (a, SEP1, ('ext', '@', ((), (b,))), SEP1, c)),
        ('a/+(|b)', (a, SEP1, ('ext', '+', ((), (b,))))),
        ('**/@(|a)', (('star', 2), SEP1, ('ext', '@', ((), (a,))))),
        ('@(|a)/b', (('ext', '@', ((), (a,))), SEP1, b)),
    ]


def plan(tier, seed):
    chunks = []
    layers = []
    NS = 64

    def add(name, menu, budgets, flagsets, depth, max_alts, residue=None):
        for b in budgets:
            for sh in range(NS):
                chunks.append((name, menu, b, tuple(flagsets), depth, max_alts, sh, NS, residue))
        layers.append({'layer': name, 'menu': menu, 'budgets': list(budgets), 'flagsets': list(flagsets),
                       'nesting': depth, 'max_alts': max_alts, 'exhaustive': residue is None, 'residue': residue})

    if tier == 'quick':
        add('ext-menu', 'topx', [1, 2], ALL_FLAGSETS, 1, 2)
        add('core', 'top', [3], QUICK_FLAGSETS, 1, 2)
        add('core-b4', 'top', [4], ['GE', 'GXDE'], 1, 1, residue=(seed % 4, 4))
    else:
        add('ext-menu', 'topx', [1, 2, 3], ALL_FLAGSETS, 1, 2)
        add('core', 'top', [3], ALL_FLAGSETS, 2, 2)
        add('core-b4', 'top', [4], QUICK_FLAGSETS, 1, 2)
        add('core-b5', 'top', [5], ['GE', 'GXDE', 'LE'], 1, 1, residue=(seed % 8, 8))
    chunks.append(('probes',))
    layers.append({'layer': 'separator-discipline probes', 'patterns': [p for p, _ in probes()], 'flagsets': 'all 64'})
    return {
        'chunks': chunks,
        'coverage': {'layers': layers, 'exhaustive': True},
        'rule': 'every path-pattern AST (leaves a . * ** *** ? [ab] [!a] / (+ // \\/ ****), groups) of the stated token '
                'budget x flag set; per instance the full reachable product (impl x segment-semantics reference x '
                'path-domain tracker) is explored, so paths are unbounded; non-trivial = instance with at least one '
                'accepted and one rejected in-domain product state',
        'assumptions': [
            'domain excludes what C02 is silent on: hidden segments without DOTGLOB, . and .. segments (C03), '
            'absolute paths against a relative pattern that starts with a globstar or uses MATCHBASE, '
            'non-directory-style paths against a pattern ending in **/, separator-only paths',
            'CPython re._parser yields the tree re.compile executes; translation bound by replaying every state',
        ],
        'nontrivial_floor': 500,
    }


def run_chunk(chunk):
    res = run.ChunkResult()
    if chunk[0] == 'probes':
        for text, ast in probes():
            for fs in ALL_FLAGSETS:
                if 'E' not in fs and '(' in text:
                    continue
                check_instance(None, fs, res, text=text, ast=ast)
        res.samples.append({'pattern': 'a[/]b', 'meaning': 'literal [ ] around a separator'})
        return res
    name, menu, budget, flagsets, depth, max_alts, sh, ns, residue = chunk
    top, topx, inner = menus()
    lv = top if menu == 'top' else topx
    k = 0
    for seq in pat.gen(budget, lv, ext=True, depth=depth, max_alts=max_alts, inner=inner):
        k += 1
        if k % ns != sh:
            continue
        text = pat.render(seq)
        if residue is not None and run.residue(text, residue[1]) != residue[0]:
            continue
        grouped = pat.has_ext(seq)
        for fs in flagsets:
            if 'E' not in fs and grouped and budget > 2:
                continue
            check_instance(seq, fs, res)
        if k % 997 == 0:
            res.samples.append({'pattern': text, 'flagsets': list(flagsets)[:3]})
    impl.clear()
    return res


def replay(v):
    inp = v['input']
    p = inp['pattern']
    flags = flags_of(inp['flags'])
    if v['kind'] == 'compile-exception':
        try:
            G.compile(p, flags=flags)
            return {'violates': False, 'observed': 'compiles'}
        except Exception as e:  # noqa: BLE001
            return {'violates': True, 'observed': type(e).__name__}
    if v['kind'] == 'matcher-application':
        m = G.compile(p, flags=flags)
        got, truth = bool(m.match(inp['name'])), langcmp.regex_accepts(m, inp['name'])
        return {'violates': got != truth, 'observed': {'match': got}}
    got = G.globmatch(inp['name'], p, flags=flags)
    got2 = bool(G.globfilter([inp['name']], p, flags=flags))
    got3 = G.compile(p, flags=flags).match(inp['name'])
    if v['kind'] == 'api-disagree':
        return {'violates': not (got == got2 == got3), 'observed': [got, got2, got3]}
    return {'violates': got != v['expected']['match'], 'observed': {'match': got, 'filter': got2, 'compiled': got3}}
