"""C05 - glob returns exactly the paths the pattern denotes on the real tree.

Explicit-state exploration of file-system states (all trees reachable by <= K create-operations, de-duplicated);
in every state, for every pattern of the FS pattern set x flag set, the real glob()/iglob() result on the
materialised tree is compared with (1) the reference walker over the *model* of the state (must subset of result
subset of must+may) and (2) Bash 5.2 pathname expansion on the shared fragment (set equality).
"""
import os

from .. import bind, run, fsx, fspat, refglob, bashref, fscommon
from wcmatch import glob as G

def _leaves(paths):
    """Some result lies outside the scratch tree (reached through `..`): a directory other processes write to."""
    return any(x == '..' or x.startswith('../') or '/../' in x or x.endswith('/..') for x in paths)


ID = 'C05'
LEVEL = 'exploration'
REPLAY_DEADLINE = 120

FLAGSETS = ['GE', 'GDE', 'E', 'GEY', 'GDEY', 'GEX', 'GEK', 'GEZ', 'GDEX', 'DE']
BASH_SETS = {'GE': (True, False, True), 'GDE': (True, True, True), 'E': (False, False, True), 'DE': (False, True, True),
             'GEY': (True, False, False), 'GDEY': (True, True, False)}
CASE_FLAGSETS = ['GEI', 'GDEI', 'GE', 'GEW', 'GEWU', 'GEC', 'GEIC']      # W: FORCEWIN is dropped by glob() on this platform
HORIZON = 3000


def real_glob(text, fs, root, **kw):
    fl = fscommon.gflags(fs)
    with fsx.ScandirMonitor(HORIZON) as mon:
        try:
            r = G.glob(text, flags=fl, root_dir=root, **kw)
        except fsx.Horizon:
            return None, len(mon.log)
    return r, len(mon.log)


def check_state(desc, sc, pats, flagsets, res, bash=True, names_tag='std'):
    state = fsx.from_desc(desc)
    sc.load(state)
    model = fsx.Model(state)
    bad = fsx.crosscheck(model, sc.root)
    if bad:
        raise run.HarnessError('model/kernel mismatch on %r: %s' % (desc, bad))
    res.n['fs_states_evaluated'] += 1
    # Bash's own treatment of symlinked directories under ** is irregular; C06 defines wcmatch's rule instead
    dirlinks = any(k == 'l' and model.kind_follow(p) in ('d', 'loop') for p, k, t in state)
    for fs in flagsets:
        fl = refglob.Flags(fs)
        bash_in = []
        results = {}
        asts = {}
        for text, ast, tags in pats:
            if 'gl' in tags and 'L' not in fs:
                pass
            res.n['evaluations'] += 1
            got, nscan = real_glob(text, fs, sc.root)
            inp = {'tree': desc, 'pattern': text, 'flags': fs}
            if got is None:
                res.add_violation(ID, run.viol('no-termination', inp, 'terminates within %d scandir calls' % HORIZON,
                                               {'scandir_calls': nscan}))
                continue
            if (len(text) % 3 == 0 or not any(ch in text for ch in '*?[({|')) and '..' not in text:
                # the same call with the root given as a directory descriptor lists the same paths (patterns that climb
                # out of the scratch tree would compare two listings of a directory other processes write to)
                fd = os.open(sc.root, os.O_RDONLY | os.O_DIRECTORY)
                try:
                    with fsx.ScandirMonitor(HORIZON):
                        try:
                            got_fd = sorted(G.glob(text, flags=fscommon.gflags(fs), dir_fd=fd))
                        except fsx.Horizon:
                            got_fd = None
                finally:
                    os.close(fd)
                res.n['evaluations'] += 1
                if got_fd != sorted(got) and not _leaves(list(got) + list(got_fd or [])):
                    res.add_violation(ID, run.viol('dir_fd-differs', inp, sorted(got), got_fd))
            try:
                ref = refglob.ref_glob(model, ast, fl)
            except OverflowError:
                res.notes['reference_overflow'] += 1
                continue
            except fsx.Unknown:
                res.notes['pattern_leaves_modelled_tree'] += 1
                continue
            fold = (lambda x: x.lower()) if fl.I else (lambda x: x)
            gotn = sorted(set(fold(refglob.norm(x)) for x in got))
            results[text] = gotn
            asts[text] = ast
            must = sorted(set(fold(refglob.norm(p)) for p, st in ref.items() if st == 'must'))
            allowed = set(fold(refglob.norm(p)) for p in ref)
            missing = [p for p in must if p not in gotn]
            extra = [p for p in gotn if p not in allowed]
            if ref and len(must) < len(model.all_paths()) + 2:
                res.n['distinct_nontrivial'] += 1
            if missing or extra:
                res.outcomes.add('ref-differs')
                v = run.viol('glob-vs-reference', inp, {'must': must, 'may': sorted(allowed - set(must))},
                             {'result': gotn, 'missing': missing, 'extra': extra})
                v['ast'] = repr(ast)
                res.add_violation(ID, v)
            else:
                res.outcomes.add('ref-agrees-empty' if not gotn else 'ref-agrees')
            if bash and fs in BASH_SETS and not ({'neg', 'gl', 'dupsep'} & tags) and not ('gstar' in tags and dirlinks):
                bash_in.append(text)
        if fs in ('GE', 'GDE'):
            # several expanded patterns in one call (SPLIT / BRACE / list), an absolute one first: the result is the
            # union of what each piece returns alone
            esc = G.escape(sc.root)
            for first in ('a', '*'):
                for rel in ('*/*', '*/a', '**/a', 'a/*', '.h'):
                    ind = sorted(set(refglob.norm(x) for x in (real_glob(esc + '/' + first, fs, sc.root)[0] or []) +
                                     (real_glob(rel, fs, sc.root)[0] or [])))
                    for how, pp, f2 in (('split', esc + '/' + first + '|' + rel, fs + 'S'),
                                        ('brace', '{' + esc + '/' + first + ',' + rel + '}', fs + 'B'),
                                        ('list', [esc + '/' + first, rel], fs)):
                        res.n['evaluations'] += 1
                        got, _n = real_glob(pp, f2, sc.root)
                        gotn = sorted(set(refglob.norm(x) for x in got or []))
                        if gotn != ind:
                            anon = lambda x: x.replace(sc.root, '<ROOT>')  # noqa: E731
                            res.add_violation(ID, run.viol('multi-piece-union', {'tree': desc, 'pieces': ['<ROOT>/' + first, rel], 'how': how, 'flags': fs},
                                                           [anon(x) for x in ind], [anon(x) for x in gotn]))
        if bash_in and bashref.available():
            g, d, sk = BASH_SETS[fs]
            outs = bashref.bash_glob(sc.root, bash_in, g, d, sk)
            for text, bo in zip(bash_in, outs):
                res.n['evaluations'] += 1
                res.n['bash_comparisons'] += 1
                bn = sorted(set(refglob.norm(x) for x in bo))
                if bn != results.get(text):
                    res.outcomes.add('bash-differs')
                    gotn = results.get(text) or []
                    v = run.viol('glob-vs-bash', {'tree': desc, 'pattern': text, 'flags': fs}, {'bash': bn},
                                 {'result': gotn, 'missing': [p for p in bn if p not in gotn],
                                  'extra': [p for p in gotn if p not in bn]})
                    v['ast'] = repr(asts[text])
                    res.add_violation(ID, v)
                else:
                    res.outcomes.add('bash-agrees')


ODD_TREE = ['a\\', 'b', 'd\\/', 'd\\/x', '*', '[', 'a]', '!(', '{a,b}', 'a|b', '~', '-a', 'sp ace', 'e/', 'e/a\\', 'e/*', '.h\\',
            '@(a/', '@(a/b)', '+(x/', '+(x/y)', '@(a/c', 'b\n', 'e/b\n', 'b\n\n', 'zl\xe9/', 'zl\xe9/a', 'zl\xe9/s/', 'zl\xe9/s/z\xe9\xe9', '+(x/bcd']
ODD_PATS = ['*', '?*', '**', '[!a]*', '*/', '*/*', '**/*', '??', '*\\\\', 'e/*', 'e//*', '*//', 'e//', '**//*', 'e///a\\\\', './/e//*',
            '?', '[ab]', 'b', 'e/?', '*/[ab]', '**/b', 'b?', '[ab][!a]', 'zl\xe9/*', 'zl\xe9/*/', 'zl\xe9/s/*', '*/s/z\xe9\xe9', '**/z\xe9\xe9', 'zl\xe9/**',
            # an extended group that is never closed is ordinary text, also when a bracket expression follows the slash
            '+(x/b[c]d', '*(x/b[c]d', '+(x/[!a]*']
ODD_FLAGS = ['GE', 'GEO', 'GDE', 'GDEO', 'GEK', 'E', 'GEOK']
# without EXTGLOB `@(`, `+(` ... are ordinary text (and `*`, `?` ordinary wildcards) even when a `/` and a `)` follow
ODD_PATS_NOEXT = ['@(a/[b])', '@(a/b)', '*(a/b)', '?(a/b)', '+(x/y)', '@(a/*', '*/b)', '@(a/b', '!(/b)', '*(*/*)', '@(a/c|b)']
ODD_FLAGS_NOEXT = ['G', 'GD', '', 'GO', 'GK']


def check_odd(res):
    """A fixed tree whose names contain metacharacters and backslashes: wildcard patterns against the reference walker."""
    sc = fsx.Scratch()
    try:
        state = fsx.from_desc(ODD_TREE)
        sc.load(state)
        model = fsx.Model(state)
        for fs in ODD_FLAGS + ODD_FLAGS_NOEXT:
            fl = refglob.Flags(fs)
            for text in (ODD_PATS if 'E' in fs else ODD_PATS + ODD_PATS_NOEXT):
                from .. import pat as _pat
                ast = tuple(_parse_simple(text))
                res.n['evaluations'] += 1
                res.n['distinct_nontrivial'] += 1
                got, _n = real_glob(text, fs, sc.root)
                # the bytes twin of the same call returns the encoded results
                try:
                    gotb = G.glob(os.fsencode(text), flags=fscommon.gflags(fs), root_dir=os.fsencode(sc.root))
                    gotb = sorted(os.fsdecode(x) for x in gotb)
                except Exception as e:  # noqa: BLE001
                    gotb = type(e).__name__
                if got is not None and gotb != sorted(got):
                    res.add_violation(ID, run.viol('bytes-twin-differs', {'tree': ODD_TREE, 'pattern': text, 'flags': fs},
                                                   sorted(got), gotb))
                ref = refglob.ref_glob(model, ast, fl)
                gotn = sorted(set(refglob.norm(x) for x in got))
                must = sorted(set(refglob.norm(p) for p, st in ref.items() if st == 'must'))
                allowed = set(refglob.norm(p) for p in ref)
                missing = [p for p in must if p not in gotn]
                extra = [p for p in gotn if p not in allowed]
                res.outcomes.add('odd-agrees' if not (missing or extra) else 'odd-differs')
                if missing or extra:
                    v = run.viol('glob-vs-reference', {'tree': ODD_TREE, 'pattern': text, 'flags': fs},
                                 {'must': must, 'may': sorted(allowed - set(must))}, {'result': gotn, 'missing': missing, 'extra': extra})
                    v['ast'] = repr(ast)
                    res.add_violation(ID, v)
        # a root that is no directory (missing, or a regular file) holds nothing - not even `.` and `..`
        for rootname in ('zz-missing', 'b'):
            for text in ('./', '../', '.', '.*', '*', './*', '**', '.*/', 'a'):
                for fs in ('GE', 'GDEY', 'GEK'):
                    res.n['evaluations'] += 1
                    got = G.glob(text, flags=fscommon.gflags(fs), root_dir=os.path.join(sc.root, rootname))
                    if got:
                        res.add_violation(ID, run.viol('result-under-non-directory-root', {'tree': ODD_TREE, 'pattern': text, 'flags': fs,
                                                                                            'root': rootname}, [], sorted(got)))
        res.samples.append({'tree': ODD_TREE, 'pattern': '*', 'flags': 'GEO'})
    finally:
        sc.close()


def _parse_simple(text):
    """Tokenise the wildcard-only ODD_PATS (no groups, brackets only [!a])."""
    from .. import pat as _pat
    i = 0
    while i < len(text):
        c = text[i]
        if c == '*':
            j = i
            while j < len(text) and text[j] == '*':
                j += 1
            yield ('star', j - i)
            i = j
        elif c == '?':
            yield _pat.Q
            i += 1
        elif c == '/':
            j = i
            while j < len(text) and text[j] == '/':
                j += 1
            yield ('sep', j - i, False)
            i = j
        elif c == '[':
            j = text.index(']', i)
            yield _pat.br(text[i:j + 1])
            i = j + 1
        elif c == '\\':
            yield _pat.lit(text[i + 1], True)
            i += 2
        else:
            yield _pat.lit(c)
            i += 1


def plan(tier, seed):
    chunks = [('odd', [])]
    st_chunks, cov = fscommon.state_chunks(tier, seed, extra_roots=fscommon.SEED_STATES)
    for c in st_chunks:
        chunks.append(('std' if tier == 'quick' else 'std-thorough', c))
    # two directories differing only in case, each with two more levels below (a literal first segment has several
    # starting points under IGNORECASE)
    cs_chunks, cov2 = fscommon.state_chunks(tier, seed, quick=(2, 2, 1), thorough=(2, 3, 8), names=('a', 'A', 'b'),
                                            extra_roots=[['a/', 'a/b/', 'a/b/a', 'A/', 'A/b/', 'A/b/a'], ['A', 'a/', 'a/b/', 'a/b/a', 'b/']])
    for c in cs_chunks:
        chunks.append(('case', c))
    cov['case_layer'] = cov2
    cov['patterns'] = len(fspat.pattern_set(tier))
    cov['flagsets'] = FLAGSETS
    cov['bash_flagsets'] = sorted(BASH_SETS)
    cov['bash_available'] = bashref.available()
    cov['exhaustive'] = True
    return {
        'chunks': chunks,
        'coverage': cov,
        'rule': 'every file-system state reachable from the empty root by at most K create-operations (mkdir/touch/'
                'symlink; names a b .h; depth 2; de-duplicated by canonical form) plus deeper seed states; in each state '
                'every pattern of the segment-menu pattern set x flag set is run through the real glob() on the '
                'materialised tree; evaluations counts (state, pattern, flags) triples plus Bash comparisons; '
                'non-trivial = triples whose reference result is non-empty and not the whole tree',
        'assumptions': ['reference walker over the model (own link resolver, cross-checked against the kernel per state)',
                        'Bash 5.2 decides the hidden-name don\'t-cares on the negation-free fragment; patterns with '
                        'duplicate separators, and globstar patterns on trees with symlinked directories, are compared '
                        'with the reference only (Bash keeps // and treats links under ** irregularly; C06 rules there)',
                        'IGNORECASE is compared with the reference only (no comparable Bash option), and modulo case '
                        'folding of the returned paths: entries differing only in case are one path under that rule (C13)'],
        'nontrivial_floor': 1000,
    }


def case_patterns():
    out = []
    T = fspat.CASE_SEGS
    names = list(T)
    for a in names:
        out.append(fspat.build([a], T))
        out.append(fspat.build([a], T, trailing=True))
        for b in names:
            out.append(fspat.build([a, b], T))
    # a literal first segment followed by two more parts (every starting point gets the whole remaining pattern)
    T3 = dict(T, b=(fspat.B,))
    for names3 in (['a', 'b', 'a'], ['A', 'b', 'a'], ['a', '*', 'a'], ['a', '**', 'a'], ['A', 'b', '*'], ['a', 'b', 'A']):
        out.append(fspat.build(names3, T3))
    from .. import pat
    return [(pat.render(a), a, set()) for a in out]


def run_chunk(chunk):
    kind, descs = chunk
    res = run.ChunkResult()
    if kind == 'odd':
        check_odd(res)
        return res
    sc = fsx.Scratch()
    try:
        if kind in ('std', 'std-thorough'):
            pats = fspat.pattern_set('quick' if kind == 'std' else 'thorough')
            for d in descs:
                check_state(d, sc, pats, FLAGSETS, res)
        else:
            pats = case_patterns()
            for d in descs:
                check_state(d, sc, pats, CASE_FLAGSETS, res, bash=False)
        res.samples.append({'tree': descs[0], 'pattern': pats[len(pats) // 3][0], 'flags': FLAGSETS[0]})
    finally:
        sc.close()
    return res


def replay(v):
    inp = v['input']
    sc = fsx.Scratch()
    try:
        sc.load(fsx.from_desc(inp['tree']))
        if v['kind'] == 'multi-piece-union':
            esc = G.escape(sc.root)
            p0, p1 = inp['pieces'][0].replace('<ROOT>', esc), inp['pieces'][1]
            fs = inp['flags']
            ind = sorted(set(refglob.norm(x) for x in (real_glob(p0, fs, sc.root)[0] or []) + (real_glob(p1, fs, sc.root)[0] or [])))
            pp, f2 = {'split': (p0 + '|' + p1, fs + 'S'), 'brace': ('{' + p0 + ',' + p1 + '}', fs + 'B'), 'list': ([p0, p1], fs)}[inp['how']]
            got = sorted(set(refglob.norm(x) for x in real_glob(pp, f2, sc.root)[0] or []))
            return {'violates': got != ind, 'observed': [x.replace(sc.root, '<ROOT>') for x in got]}
        got, nscan = real_glob(inp['pattern'], inp['flags'], sc.root)
        if v['kind'] == 'result-under-non-directory-root':
            got = sorted(G.glob(inp['pattern'], flags=fscommon.gflags(inp['flags']), root_dir=os.path.join(sc.root, inp['root'])))
            return {'violates': bool(got), 'observed': got}
        if v['kind'] == 'dir_fd-differs':
            fd = os.open(sc.root, os.O_RDONLY | os.O_DIRECTORY)
            try:
                got_fd = sorted(G.glob(inp['pattern'], flags=fscommon.gflags(inp['flags']), dir_fd=fd))
            finally:
                os.close(fd)
            return {'violates': got_fd != sorted(got or []), 'observed': got_fd}
        if v['kind'] == 'bytes-twin-differs':
            try:
                gotb = sorted(os.fsdecode(x) for x in G.glob(os.fsencode(inp['pattern']), flags=fscommon.gflags(inp['flags']),
                                                             root_dir=os.fsencode(sc.root)))
            except Exception as e:  # noqa: BLE001
                gotb = type(e).__name__
            return {'violates': gotb != sorted(got or []), 'observed': gotb}
        if v['kind'] == 'no-termination':
            return {'violates': got is None, 'observed': {'scandir_calls': nscan}}
        if got is None:
            return {'violates': True, 'observed': 'no termination'}
        fold = (lambda x: x.lower()) if 'I' in inp['flags'] else (lambda x: x)
        gotn = sorted(set(fold(refglob.norm(x)) for x in got))
        if v['kind'] == 'glob-vs-bash':
            want = v['expected']['bash']
            return {'violates': gotn != want, 'observed': {'result': gotn}}
        must = v['expected']['must']
        allowed = set(must) | set(v['expected']['may'])
        bad = [p for p in must if p not in gotn] or [p for p in gotn if p not in allowed]
        return {'violates': bool(bad), 'observed': {'result': gotn}}
    finally:
        sc.close()
