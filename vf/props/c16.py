"""C16 - pathlib methods are faithful views of wcmatch.glob.

FSX exploration (cwd = the materialised root): in every state, for every FS pattern x flag set:
  glob      Path(r).glob(P)  ==  {r/x for x in glob.glob(P, root_dir=r)}   (as sets of normalised paths), no duplicates
  rglob     Path(r).rglob(P) vs the reference walker with an implicit leading recursive segment (must/may)
  match     for every relative path q naming an entry: q.match(P, REALPATH)  <=>  q in Path('.').rglob(P)
  globmatch q.globmatch(P) == q.full_match(P) == glob.globmatch(str(q) [+ '/' if directory], P) ; pure paths: no slash
  errors    absolute patterns -> ValueError (glob, rglob); user FORCEWIN/FORCEUNIX ignored; REALPATH on a pure path of
            the foreign platform -> ValueError
"""
import os

from .. import bind, run, fsx, fspat, fscommon, refglob, findings
from wcmatch import glob as G, pathlib as WP

ID = 'C16'
LEVEL = 'exploration'
REPLAY_DEADLINE = 120

FLAGSETS = ['GE', 'GDE', 'E', 'GEO', 'GEF', 'LE', 'GEQ', 'GEY', 'GEN', 'LEF', 'EY']


def pl_flags(fs):
    return fscommon.gflags(fs)


def follows(text, fs):
    return ('F' in fs and 'L' not in fs) or ('L' in fs and '***' in text) or ('L' in fs and 'F' in fs)


def check_state(desc, sc, pats, res, thin):
    state = fsx.from_desc(desc)
    sc.load(state)
    model = fsx.Model(state)
    cyc = model.has_cycle()
    res.n['fs_states_evaluated'] += 1
    cwd = os.getcwd()
    try:
        os.chdir(sc.root)
        root = WP.Path(sc.root)
        here = WP.Path('.')
        entries = model.all_paths()
        for fi, fs in enumerate(FLAGSETS):
            fl = pl_flags(fs)
            rf = refglob.Flags(fs + 'R')
            for pi, (text, ast, tags) in enumerate(pats):
                if thin and (pi + fi) % thin:
                    continue
                if cyc and (follows(text, fs) or 'F' in fs):
                    continue
                if text.startswith('!') and 'N' in fs:
                    continue
                inp = {'tree': desc, 'pattern': text, 'flags': fs}
                res.n['evaluations'] += 1
                # ---- glob
                try:
                    with fsx.ScandirMonitor(3000):
                        pg = list(root.glob(text, flags=fl))
                        gg = G.glob(text, flags=fl, root_dir=sc.root)
                        rg = list(here.rglob(text, flags=fl))
                except fsx.Horizon:
                    res.add_violation(ID, run.viol('no-termination', inp, 'terminates', 'horizon'))
                    continue
                except Exception as e:  # noqa: BLE001
                    res.add_violation(ID, run.viol('raises', inp, 'lists', {'exc': type(e).__name__, 'msg': str(e)[:80]}))
                    continue
                a = sorted(str(x) for x in pg)
                b = sorted(set(str(root.joinpath(x)) for x in gg))
                if gg:
                    res.n['distinct_nontrivial'] += 1
                if sorted(set(a)) != b:
                    res.outcomes.add('glob-differs')
                    res.add_violation(ID, run.viol('pathlib-glob-differs', inp, [os.path.relpath(x, sc.root) for x in b][:30],
                                                   [os.path.relpath(x, sc.root) for x in a][:30]))
                else:
                    res.outcomes.add('glob-agrees')
                if 'Q' not in fs and len(a) != len(set(a)):
                    res.add_violation(ID, run.viol('pathlib-duplicate', inp, 'no file twice', [os.path.relpath(x, sc.root) for x in a][:30]))
                # ---- rglob vs reference with implicit recursive prefix
                rgs = sorted(set(str(x) for x in rg))
                try:
                    ref = refglob.ref_glob(model, ast, rf)
                except (OverflowError, fsx.Unknown):
                    ref = None
                if ref is not None:
                    norm = lambda p: str(WP.PurePosixPath(p))  # noqa: E731
                    must = sorted(set(norm(p) for p, st in ref.items() if st == 'must'))
                    allowed = set(norm(p) for p in ref)
                    missing = [p for p in must if p not in rgs]
                    extra = [p for p in rgs if p not in allowed]
                    if missing or extra:
                        res.outcomes.add('rglob-differs')
                        v = run.viol('pathlib-vs-reference', inp, {'must': must, 'may': sorted(allowed - set(must))},
                                     {'result': rgs, 'missing': missing, 'extra': extra})
                        v['ast'] = repr(ast)
                        res.add_violation(ID, v)
                    else:
                        res.outcomes.add('rglob-agrees')
                # ---- match(REALPATH) <=> rglob membership, for every entry.  Patterns whose matches are respelled by
                # pathlib's normalisation ('.', '..' segments, doubled separators, or a NULLSTART shape producing './x')
                # are outside this clause: rglob yields the normalised spelling, match sees the path as written.
                respelled = 'Y' in fs or bool(tags & {'dotslash', 'updown', 'dupsep'}) or any(
                    refglob.is_literal(sg) and refglob.seg_text(sg) in ('.', '..') for sg in findings._segments(ast)) or any(
                    findings._nullstart(sg, True, False, False, True) for sg in findings._segments(ast))
                if not (cyc and 'F' in fs) and not respelled:
                    for q in entries:
                        qp = WP.Path(q)
                        try:
                            m = qp.match(text, flags=fl | G.REALPATH)
                        except Exception as e:  # noqa: BLE001
                            m = type(e).__name__
                        inr = str(qp) in rgs
                        res.n['match_vs_rglob'] += 1
                        if m != inr:
                            v = run.viol('match-vs-rglob', dict(inp, path=q), {'in_rglob': inr}, {'match': m})
                            v['ast'] = repr(ast)
                            res.add_violation(ID, v)
                            break
                # ---- globmatch / full_match == glob.globmatch on the path's string
                for q in entries[:4] + ['.']:
                    qp = WP.Path(q)
                    s = str(qp) + ('/' if q == '.' or model.isdir(q) else '')
                    want = G.globmatch(s, text, flags=fl | G.FORCEUNIX)
                    g1 = qp.globmatch(text, flags=fl)
                    g2 = qp.full_match(text, flags=fl)
                    pure = WP.PurePosixPath(q).globmatch(text, flags=fl & ~G.REALPATH)
                    wantp = G.globmatch(str(WP.PurePosixPath(q)), text, flags=(fl & ~G.REALPATH) | G.FORCEUNIX)
                    res.n['globmatch_checks'] += 1
                    if not (g1 == g2 == want) or pure != wantp:
                        res.add_violation(ID, run.viol('globmatch-differs', dict(inp, path=q), {'glob.globmatch': want, 'pure': wantp},
                                                       {'globmatch': g1, 'full_match': g2, 'pure': pure}))
                        break
        # ---- pattern lists whose results differ only by a `.` segment or a trailing separator: never the same file twice
        for pl in (['a', './a'], ['a/', 'a'], ['*', './*'], ['b', './b', 'b/'], ['**', './**']):
            for fs in ('GE', 'GDE', 'GEQ'):
                for meth in ('glob', 'rglob'):
                    res.n['evaluations'] += 1
                    try:
                        got = [str(x) for x in getattr(root, meth)(pl, flags=pl_flags(fs))]
                    except Exception as e:  # noqa: BLE001
                        res.add_violation(ID, run.viol('raises', {'tree': desc, 'pattern': pl, 'flags': fs, 'method': meth}, 'lists', type(e).__name__))
                        continue
                    if 'Q' not in fs and len(got) != len(set(got)):
                        res.add_violation(ID, run.viol('pathlib-duplicate', {'tree': desc, 'pattern': pl, 'flags': fs, 'method': meth},
                                                       'no file twice', [os.path.relpath(x, sc.root) for x in got][:30]))
        # ---- the same keyword arguments on both sides: match(p, REALPATH, exclude=e) <=> membership in rglob(p, exclude=e)
        for p_, e_ in (('.h/a', 'a'), ('.h/*', '*'), ('.*', '*'), ('**/.h', '?h'), ('a/.h', '.h'), ('*', 'a'), ('.h/**', 'a/*'), ('**', '*/a'),
                       # an empty pattern matches nothing; `!` is literal text once exclude= is given
                       ('', None), (['a', ''], None), ('a|', None), ('|b', None), (['*', '!a'], 'zz'), ('!a', 'b'), ('*|!a/*', 'zz'), ('!*', None)):
            for fs in ('GE', 'E', 'GENS'):
                if ('|' in p_ if isinstance(p_, str) else False) and 'S' not in fs:
                    continue
                res.n['evaluations'] += 1
                fl = pl_flags(fs)
                try:
                    rgs = set(str(x) for x in here.rglob(p_, flags=fl, exclude=e_))
                except Exception as e:  # noqa: BLE001
                    res.add_violation(ID, run.viol('raises', {'tree': desc, 'pattern': p_, 'flags': fs, 'method': 'rglob', 'exclude': e_}, 'lists', type(e).__name__))
                    continue
                for q in entries:
                    qp = WP.Path(q)
                    m = qp.match(p_, flags=fl | G.REALPATH, exclude=e_)
                    res.n['match_vs_rglob'] += 1
                    if m != (str(qp) in rgs):
                        res.add_violation(ID, run.viol('match-vs-rglob-exclude', {'tree': desc, 'pattern': p_, 'exclude': e_, 'flags': fs, 'path': q},
                                                       {'in_rglob': str(qp) in rgs}, {'match': m}))
                        break
        # ---- errors
        for meth in ('glob', 'rglob'):
            for ap in ('/a', '/*', '/', '/**/a', ['a', '/a']):
                res.n['evaluations'] += 1
                try:
                    list(getattr(root, meth)(ap, flags=G.GLOBSTAR))
                    res.add_violation(ID, run.viol('absolute-pattern-accepted', {'tree': desc, 'method': meth, 'pattern': ap},
                                                   'ValueError', 'no exception'))
                except ValueError:
                    res.outcomes.add('absolute-rejected')
        for q in entries[:3]:
            a = WP.Path(q).globmatch('*', flags=G.FORCEWIN)
            b = WP.Path(q).globmatch('*', flags=0)
            c = WP.PurePosixPath(q).globmatch('*', flags=G.FORCEWIN | G.FORCEUNIX)
            if not (a == b == c):
                res.add_violation(ID, run.viol('user-platform-flags-not-ignored', {'tree': desc, 'path': q}, b, [a, c]))
        try:
            WP.PureWindowsPath('a').globmatch('*', flags=G.REALPATH)
            res.add_violation(ID, run.viol('foreign-realpath-accepted', {'tree': desc}, 'ValueError', 'no exception'))
        except ValueError:
            pass
    finally:
        os.chdir(cwd)


ODD_TREE = ['a\\.\\b', 'a\\b', 'a\\', 'b', 'd\\/', 'd\\/x', '*', '[', 'sp ace', 'e/', 'e/a\\', '.h\\', 'a.b', 'a\\./', 'a\\./b']
ODD_LISTS = [['*b', 'a*'], ['*'], ['**'], ['*', '?*'], ['*/*', '**/*'], ['a*', '*\\\\*'], ['**/b', '**/*b']]


def check_odd(res):
    """Names containing backslashes and metacharacters: Path.glob is glob.glob joined on the root, as sets."""
    sc = fsx.Scratch()
    try:
        sc.load(fsx.from_desc(ODD_TREE))
        root = WP.Path(sc.root)
        for pl in ODD_LISTS:
            for fs in ('GE', 'GDE', 'GEQ', 'GEO'):
                fl = pl_flags(fs)
                res.n['evaluations'] += 1
                res.n['distinct_nontrivial'] += 1
                a = sorted(str(x) for x in root.glob(pl, flags=fl))
                b = sorted(set(os.path.normpath(os.path.join(sc.root, x)) for x in G.glob(pl, flags=fl, root_dir=sc.root)))
                inp = {'tree': ODD_TREE, 'pattern': pl, 'flags': fs}
                if sorted(set(a)) != b:
                    res.add_violation(ID, run.viol('pathlib-glob-differs', inp, [os.path.relpath(x, sc.root) for x in b],
                                                   [os.path.relpath(x, sc.root) for x in a]))
                elif 'Q' not in fs and len(a) != len(set(a)):
                    res.add_violation(ID, run.viol('pathlib-duplicate', inp, 'no file twice', [os.path.relpath(x, sc.root) for x in a]))
                else:
                    res.outcomes.add('odd-agrees')
        res.samples.append({'tree': ODD_TREE, 'patterns': ODD_LISTS[0]})
    finally:
        sc.close()


def plan(tier, seed):
    st_chunks, cov = fscommon.state_chunks(tier, seed, extra_roots=fscommon.SEED_STATES, per_chunk=6)
    thin = 7 if tier == 'quick' else 2
    chunks = [('odd', [], 0)] + [('std', c, thin) for c in st_chunks]
    cov.update({'patterns': len(fspat.pattern_set('quick')), 'flagsets': FLAGSETS, 'exhaustive': True,
                'pattern_thinning': 'per flag set every %d-th pattern, offset rotating with the flag set' % thin})
    return {
        'chunks': chunks,
        'coverage': cov,
        'rule': 'every explored file-system state x FS patterns x flag sets over GLOBSTAR, DOTGLOB, EXTGLOB, FOLLOW, '
                'GLOBSTARLONG, NODIR, NEGATE, SCANDOTDIR, NOUNIQUE, REALPATH x every path object naming an entry of the tree '
                'or its root (Path, PurePosixPath; PureWindowsPath for the error clause); non-trivial = evaluations with a '
                'non-empty glob result',
        'assumptions': ['the pure-path half (all names) is decided by C03/C17 on the regex with the implicit prefix; here '
                        'the entry points are compared on real trees',
                        'link-following configurations only on trees without directory cycles'],
        'nontrivial_floor': 300,
    }


def run_chunk(chunk):
    kind, descs, thin = chunk
    res = run.ChunkResult()
    if kind == 'odd':
        check_odd(res)
        return res
    sc = fsx.Scratch()
    try:
        pats = [p for p in fspat.pattern_set('quick') if 'updown' not in p[2]]
        for d in descs:
            check_state(d, sc, pats, res, thin)
        res.samples.append({'tree': descs[0], 'pattern': pats[9][0], 'flags': FLAGSETS[0]})
    finally:
        sc.close()
    return res


def replay(v):
    inp = v['input']
    r = run.ChunkResult()
    if inp.get('tree') == ODD_TREE:
        check_odd(r)
        hit = [x for x in r.viol if x['kind'] == v['kind'] and x['input'] == run.jsonable(inp)]
        return {'violates': bool(hit), 'observed': hit[0]['observed'] if hit else 'ok'}
    sc = fsx.Scratch()
    try:
        if 'pattern' in inp and isinstance(inp['pattern'], str):
            pats = [p for p in fspat.pattern_set('quick') if p[0] == inp['pattern']]
        else:
            pats = []
        check_state(inp['tree'], sc, pats, r, 0)
    finally:
        sc.close()
    hit = [x for x in r.viol + list(r.known_ex.values()) if x['kind'] == v['kind'] and x['input'] == run.jsonable(inp)]
    return {'violates': bool(hit), 'observed': hit[0]['observed'] if hit else 'ok'}
