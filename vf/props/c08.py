"""C08 - translate returns regexes that mean exactly what match does.

For every generated pattern / small list with exclusions x flag set: every regex of translate() compiles; the
automaton of (translate() inclusion regexes minus exclusion regexes) and the automaton of the regexes the
matcher executes are compared by exhaustive product exploration (all names); capture groups are counted and
their contents checked on every conformance witness.
"""
import re

from .. import bind, run, pat, impl, alphabet, product, sre_aut, langcmp
from wcmatch import glob as G, fnmatch as F, _wcmatch

ID = 'C08'
LEVEL = 'model_checking'

FN = {'C': F.CASE, 'I': F.IGNORECASE, 'N': F.NEGATE, 'M': F.MINUSNEGATE, 'D': F.DOTMATCH, 'E': F.EXTMATCH,
      'B': F.BRACE, 'S': F.SPLIT, 'A': F.NEGATEALL, 'W': F.FORCEWIN, 'U': F.FORCEUNIX, 'R': F.RAWCHARS}
GL = dict(FN, G=G.GLOBSTAR, L=G.GLOBSTARLONG, X=G.MATCHBASE, O=G.NODIR, Z=G.NODOTDIR, T=G.GLOBTILDE, P=G.REALPATH)


def flags_of(mode, fs):
    tab = GL if mode == 'glob' else FN
    f = 0
    for ch in fs:
        f |= tab[ch]
    return f


def count_ext(seq):
    n = 0
    for nd in seq:
        if nd[0] == 'ext':
            n += 1 + sum(count_ext(a) for a in nd[2])
    return n


def top_groups(seq):
    """[(group number, node index, kind)] for top-level groups, numbering in order of opening."""
    out = []
    g = 0
    for i, nd in enumerate(seq):
        if nd[0] == 'ext':
            g += 1
            out.append((g, i, nd[1]))
            g += sum(count_ext(a) for a in nd[2])
    return out


def _enc(x):
    return x.encode('latin-1') if isinstance(x, str) else None if x is None else [_enc(i) for i in x]


def check_instance(mode, pats, ex, fs, res, seq=None, is_bytes=False):
    """pats: pattern text or list; ex: exclude or None; seq: AST when pats is a single generated pattern."""
    mod = G if mode == 'glob' else F
    fl = flags_of(mode, fs)
    if is_bytes:
        pats, ex = _enc(pats), _enc(ex)
    inp = {'mode': mode, 'patterns': pats, 'exclude': ex, 'flags': fs}
    res.n['evaluations'] += 1
    try:
        pos, neg = mod.translate(pats, flags=fl, exclude=ex)
    except Exception as e:  # noqa: BLE001
        res.notes['translate_exception_' + type(e).__name__] += 1
        try:
            mod.compile(pats, flags=fl, exclude=ex)
        except Exception as e2:  # noqa: BLE001
            if type(e2) is type(e):
                return
        res.add_violation(ID, run.viol('translate-raises', inp, 'same as compile', {'exc': type(e).__name__}))
        return
    cre = []
    for r in pos + neg:
        try:
            cre.append(re.compile(r))
        except re.error as e:
            res.add_violation(ID, run.viol('uncompilable', inp, 'every translate() regex compiles',
                                           {'regex': r, 'error': str(e)[:80]}))
            return
    try:
        m = mod.compile(pats, flags=fl, exclude=ex)
    except Exception as e:  # noqa: BLE001
        res.add_violation(ID, run.viol('compile-raises', inp, 'compiles like translate', {'exc': type(e).__name__}))
        return
    T = _wcmatch.WcRegexp(tuple(cre[:len(pos)]), tuple(cre[len(pos):]))
    c = langcmp.equal(T, m, is_bytes)
    res.n['states'] += c.states
    res.n['transitions'] += c.transitions
    res.n['traces_validated_against_impl'] += c.traces
    if c.mode == 'fallback':
        res.n['fallback_cases'] += 1
        if c.divergence:
            res.divergences.append(repr(c.divergence)[:200])
    if c.states > 2:
        res.n['distinct_nontrivial'] += 1
    res.outcomes.add('equal' if c.witness is None else 'differ')
    if c.witness is not None:
        res.add_violation(ID, run.viol('translate-language', dict(inp, name=c.witness),
                                       {'translate_regexes_match': c.accs[1]}, {'translate_regexes_match': c.accs[0]}))
    # capture groups
    if seq is not None and not is_bytes and 'E' in fs and isinstance(pats, str) and len(pos) == 1 and not ({'S', 'B', 'N'} & set(fs)):
        want = count_ext(seq)
        got = cre[0].groups
        res.outcomes.add('groups-ok' if got == want else 'groups-bad')
        if got != want:
            res.add_violation(ID, run.viol('group-count', inp, {'groups': want}, {'groups': got, 'regex': pos[0]}))
        elif want and mode == 'fn':
            _capture_contents(seq, pats, fs, cre[0], res, inp)


CAP_ALPHA = 'ab.'


def _capture_contents(seq, text, fs, rx, res, inp):
    import itertools
    tg = [(g, i, k) for g, i, k in top_groups(seq) if k != '!']
    if not tg:
        return
    if pat.has_ext(seq, '!'):
        # what a negated group consumes depends on everything that follows it, so prefix / group / suffix cannot be
        # judged in isolation when a negation occurs anywhere in the pattern (the language itself is still compared)
        res.notes['capture_check_skipped_negation'] += 1
        return
    sub = F.DOTMATCH | F.EXTMATCH | (F.IGNORECASE if 'I' in fs and 'C' not in fs else F.CASE)
    for L in range(1, 4):
        for tup in itertools.product(CAP_ALPHA, repeat=L):
            name = ''.join(tup)
            mm = rx.fullmatch(name)
            if not mm:
                continue
            res.n['traces_validated_against_impl'] += 1
            for g, i, k in tg:
                cap = mm.group(g)
                if cap is None:
                    bad = 'group did not participate'
                else:
                    a, b = mm.span(g)
                    pre, suf = pat.render(seq[:i]), pat.render(seq[i + 1:])
                    grp = pat.render(seq[i:i + 1])
                    ok = (F.fnmatch(cap, grp, flags=sub) if cap else _nullable_group(seq[i])) and \
                        (F.fnmatch(name[:a], pre, flags=sub) if name[:a] else _empty_ok(seq[:i])) and \
                        (F.fnmatch(name[b:], suf, flags=sub) if name[b:] else _empty_ok(seq[i + 1:]))
                    bad = None if ok else 'captured text is not what the group consumed'
                if bad:
                    res.add_violation(ID, run.viol('capture-content', dict(inp, name=name, group=g),
                                                   'prefix . capture . suffix = name, each in its language',
                                                   {'capture': cap, 'why': bad}))
                    return


def _nullable_group(nd):
    from ..findings import _nullable
    return nd[1] in '?*' or any(_nullable(a) for a in nd[2])


def _empty_ok(seq):
    from ..findings import _nullable
    return _nullable(seq)


# ---------------------------------------------------------------- planning

FN_FLAGSETS = ['E', 'DE', '', 'EI', 'DEW', 'EU', 'DEC', 'EWU']
GL_FLAGSETS = ['E', 'GE', 'GDE', 'GXE', 'LE', 'GZE', 'GEO', 'GDEW', 'GXDEO', '', 'GLDEI', 'GEWO']
BYTES_FN_FLAGSETS = ['E', 'DEW', 'EI']
BYTES_GL_FLAGSETS = ['GE', 'GEO', 'GEWO', 'GDEW', 'GEZ', 'GXEW']
LIST_POOL_FN = ['*', 'a*', '.*', '*.a', '!*.a', '[!a]*', '@(a|b)', '!(a)', '\\!a', '!a', '-a', '-?a', '!(a)b', '*|!a*',
                '{a,b}*', 'a|b', '!?(a)*', 'a\\x7cb', '\\x7ba,b\\x7d*', 'a\\174\\x2a']
LIST_POOL_GL = ['*', 'a/*', '**', '**/.a', '!*.a', '*/', '!(a)', '!a*', '.*', '*.a', '**/a|!b', '{a,.a}/*', '-a', '!**/?a',
                '-*/a', 'a\\x7cb/*', '\\x7ba,b\\x7d']
LIST_FLAGS_FN = ['NE', 'NME', 'NEA', 'NES', 'NEB', 'E', 'NDE', 'NESB', 'NEAS', 'ES', 'EB', 'ERS', 'ERB', 'NERSB']
LIST_FLAGS_GL = ['GNE', 'GNME', 'GNEA', 'GNES', 'GNEB', 'GE', 'GNDE', 'GNEO', 'GNEAO', 'GES', 'GEB', 'GXNE', 'GERS', 'GERB', 'NEA', 'NA']


def plan(tier, seed):
    chunks = []
    layers = []
    NS = 48

    def add(mode, budgets, flagsets, depth, residue=None):
        for b in budgets:
            for sh in range(NS):
                chunks.append(('pat', mode, b, tuple(flagsets), depth, sh, NS, residue))
        layers.append({'kind': 'single patterns', 'mode': mode, 'budgets': list(budgets), 'flagsets': list(flagsets),
                       'nesting': depth, 'exhaustive': residue is None, 'residue': residue})

    if tier == 'quick':
        add('fn', [1, 2, 3], FN_FLAGSETS, 2)
        add('glob', [1, 2], GL_FLAGSETS, 1)
        add('glob', [3], GL_FLAGSETS[:5], 1)
        nlist = 2
    else:
        add('fn', [1, 2, 3], FN_FLAGSETS, 3)
        add('fn', [4], FN_FLAGSETS[:3], 2)
        add('glob', [1, 2, 3], GL_FLAGSETS, 2)
        add('glob', [4], GL_FLAGSETS[:3], 1, residue=(seed % 4, 4))
        nlist = 3
    for mode in ('fn', 'glob'):
        for sh in range(16):
            chunks.append(('lists', mode, nlist, sh, 16))
        for sh in range(8):
            chunks.append(('bytes', mode, sh, 8))
    layers.append({'kind': 'bytes twins', 'budgets': [1, 2], 'flagsets_fn': BYTES_FN_FLAGSETS, 'flagsets_glob': BYTES_GL_FLAGSETS})
    layers.append({'kind': 'lists', 'pool_fn': LIST_POOL_FN, 'pool_glob': LIST_POOL_GL, 'max_inclusions': nlist,
                   'max_exclusions': 1, 'flagsets_fn': LIST_FLAGS_FN, 'flagsets_glob': LIST_FLAGS_GL})
    return {
        'chunks': chunks,
        'coverage': {'layers': layers, 'exhaustive': True},
        'rule': 'every generated pattern AST of the stated budget x flag set, and every ordered list of 1..n pool '
                'patterns with 0..1 exclude= patterns x list flag sets; per instance the product of the translate() '
                'automaton and the executed-regex automaton is explored completely (all names); non-trivial = product '
                'with more than two states',
        'assumptions': ['capture contents are judged with the library\'s own fnmatch on the sub-patterns '
                        '(prefix / group / suffix) as sub-oracle, fnmatch mode only, names up to length 3'],
        'nontrivial_floor': 300,
    }


def run_chunk(chunk):
    import itertools
    res = run.ChunkResult()
    if chunk[0] == 'pat':
        _k, mode, budget, flagsets, depth, sh, ns, residue = chunk
        from . import c01, c02
        if mode == 'fn':
            lv, inner = c01.menus()[0], None
        else:
            top, _topx, inner = c02.menus()
            lv = top
        k = 0
        for seq in pat.gen(budget, lv, ext=True, depth=depth, max_alts=2, inner=inner):
            k += 1
            if k % ns != sh:
                continue
            text = pat.render(seq)
            if residue is not None and run.residue(text, residue[1]) != residue[0]:
                continue
            grouped = pat.has_ext(seq)
            for fs in flagsets:
                if 'E' not in fs and grouped:
                    continue
                check_instance(mode, text, None, fs, res, seq=seq)
            if mode == 'glob' and not pat.has_ext(seq, '!'):
                # REALPATH changes how the matcher treats `**`, not what translate() hands out: still one capturing group
                # per extended group
                try:
                    g = re.compile(G.translate(text, flags=G.GLOBSTAR | G.EXTGLOB | G.REALPATH)[0][0]).groups
                except Exception:  # noqa: BLE001
                    g = None
                res.n['evaluations'] += 1
                if g is not None and g != count_ext(seq):
                    res.add_violation(ID, run.viol('group-count', {'mode': mode, 'patterns': text, 'exclude': None, 'flags': 'GEP'},
                                                   {'groups': count_ext(seq)}, {'groups': g}))
            if k % 499 == 0:
                res.samples.append({'mode': mode, 'pattern': text})
    elif chunk[0] == 'bytes':
        # the bytes copies of the regex fragments translate() and the matcher use are separate constants
        _k, mode, sh, ns = chunk
        from . import c01, c02
        if mode == 'fn':
            lv, inner, fsets = c01.menus()[0], None, BYTES_FN_FLAGSETS
        else:
            top, _topx, inner = c02.menus()
            lv, fsets = top, BYTES_GL_FLAGSETS
        k = 0
        for budget in (1, 2):
            for seq in pat.gen(budget, lv, ext=True, depth=1, max_alts=2, inner=inner):
                k += 1
                if k % ns != sh:
                    continue
                for fs in fsets:
                    check_instance(mode, pat.render(seq), None, fs, res, seq=seq, is_bytes=True)
        for p, ex, fs in ((['*', '!a'], None, 'GNEWO'), ('*', 'a', 'GEWO'), (['**', '!*/'], None, 'GNEW'), ('*/', None, 'GEWO')):
            if mode == 'glob':
                check_instance(mode, p, ex, fs, res, is_bytes=True)
        res.samples.append({'mode': mode, 'bytes': True, 'flagsets': fsets})
    else:
        _k, mode, nlist, sh, ns = chunk
        pool = LIST_POOL_GL if mode == 'glob' else LIST_POOL_FN
        fsets = LIST_FLAGS_GL if mode == 'glob' else LIST_FLAGS_FN
        k = 0
        for n in range(1, nlist + 1):
            for combo in itertools.product(pool, repeat=n):
                # an empty exclude= is still an exclude= argument (it switches the inline negation syntax off)
                for ex in [None] + pool[:6] + ([[], ''] if n == 1 else []):
                    k += 1
                    if k % ns != sh:
                        continue
                    for fs in fsets:
                        check_instance(mode, list(combo) if n > 1 else combo[0], ex, fs, res)
        res.samples.append({'mode': mode, 'list': list(pool[:2]), 'exclude': pool[2]})
    impl.clear()
    return res


def replay(v):
    inp = v['input']
    mod = G if inp['mode'] == 'glob' else F
    fl = flags_of(inp['mode'], inp['flags'])
    kind = v['kind']
    try:
        pos, neg = mod.translate(inp['patterns'], flags=fl, exclude=inp['exclude'])
    except Exception as e:  # noqa: BLE001
        return {'violates': kind == 'translate-raises', 'observed': type(e).__name__}
    if kind == 'uncompilable':
        for r in pos + neg:
            try:
                re.compile(r)
            except re.error as e:
                return {'violates': True, 'observed': str(e)[:80]}
        return {'violates': False, 'observed': 'all compile'}
    if kind == 'group-count':
        g = re.compile(pos[0]).groups
        return {'violates': g != v['expected']['groups'], 'observed': {'groups': g}}
    if kind == 'translate-language':
        name = inp['name']
        t = any(re.compile(r).fullmatch(name) for r in pos) and not any(re.compile(r).fullmatch(name) for r in neg)
        match = mod.globmatch if inp['mode'] == 'glob' else mod.fnmatch
        real = match(name, inp['patterns'], flags=fl, exclude=inp['exclude'])
        return {'violates': bool(t) != bool(real), 'observed': {'translate_regexes': bool(t), 'match': real}}
    if kind == 'capture-content':
        mm = re.compile(pos[0]).fullmatch(inp['name'])
        cap = mm.group(inp['group']) if mm else None
        return {'violates': cap == v['observed']['capture'], 'observed': {'capture': cap}}
    if kind in ('translate-raises', 'compile-raises'):
        try:
            mod.compile(inp['patterns'], flags=fl, exclude=inp['exclude'])
            return {'violates': False, 'observed': 'ok'}
        except Exception as e:  # noqa: BLE001
            return {'violates': kind == 'compile-raises', 'observed': type(e).__name__}
    raise ValueError(kind)
