"""C20 - RAWCHARS decodes Python-style character escapes and nothing else.

Exhaustive enumeration of all strings up to a length over reduced alphabets x {RAWCHARS on/off} x
{FORCEUNIX, FORCEWIN} x {str, bytes} x {fnmatch, glob}; oracle = an independent decoder written from the
statement.  Equality of meaning is decided by identical translate() text (fast path) or, when the texts
differ, by exhaustive exploration of the product of the two executed-regex automata (all names).
"""
import itertools
import os
import shutil
import tempfile
import unicodedata

from .. import bind, run, langcmp
from wcmatch import fnmatch as F, glob as G, wcmatch as WM

ID = 'C20'
LEVEL = 'exploration'

ALPHA_A = '\\xuN{}41a*[/'
ALPHA_B = '\\x5c2a*][3'
HEX = set('0123456789abcdefABCDEF')
OCT = set('01234567')
CTRL = {'a': '\a', 'b': '\b', 'f': '\f', 'n': '\n', 'r': '\r', 't': '\t', 'v': '\v'}

CATALOG_ESC = ['\\x4A', '\\xFF', '\\x2A', '\\x5B', '\\xfF', '\\x\u0663\u0664', '\\u\u0660\u0660\u0664\u0661', '\\U0000004\u0661', '\\U00110000', '\\U0010ffff', '\\U0010FFFE', '\\uffff', '\\N{DIGIT ONE}', '\\N{ASTERISK}', '\\N{LATIN SMALL LETTER A}', '\\N{REVERSE SOLIDUS}',
               '\\u0041', '\\u002a', '\\U0000002a', '\\U00000041', '\\u005c', '\\u005b', '\\x2a', '\\52',
               '\\N{LEFT SQUARE BRACKET}', '\\u00e9', '\\N{NO SUCH NAME}', '\\u004', '\\U0000004', '\\N{DIGIT ONE']
CATALOG_PRE = ['', '\\', '\\\\', '[', '[!', '*', 'a', '\\\\\\', '@(']
CATALOG_POST = ['', ']', '*', '1', '\\', 'a]', ')']


class Undefined(Exception):
    pass


def decode(s, is_bytes):
    """Reference decoder, written from the statement of C20. `s` is a str (latin-1 view for bytes)."""
    out = []
    i = 0
    n = len(s)
    while i < n:
        c = s[i]
        if c != '\\' or i + 1 >= n:
            out.append(c)
            i += 1
            continue
        d = s[i + 1]
        if d == '\\':
            out.append('\\\\')
            i += 2
        elif d in CTRL:
            out.append(CTRL[d])
            i += 2
        elif d == 'x':
            h = s[i + 2:i + 4]
            if len(h) == 2 and set(h) <= HEX:
                out.append(chr(int(h, 16)))
                i += 4
            else:
                raise SyntaxError('incomplete \\x')
        elif d in OCT:
            j = i + 1
            while j < min(i + 4, n) and s[j] in OCT:
                j += 1
            v = int(s[i + 1:j], 8)
            if is_bytes:
                v &= 0xff
            out.append(chr(v))
            i = j
        elif not is_bytes and d in 'uU':
            k = 4 if d == 'u' else 8
            h = s[i + 2:i + 2 + k]
            if len(h) == k and set(h) <= HEX:
                v = int(h, 16)
                if v > 0x10ffff:
                    raise SyntaxError('not a character')     # undecodable, like an incomplete escape
                out.append(chr(v))
                i += 2 + k
            else:
                raise SyntaxError('incomplete \\' + d)
        elif not is_bytes and d == 'N':
            if s[i + 2:i + 3] == '{' and '}' in s[i + 3:]:
                e = s.index('}', i + 3)
                out.append(unicodedata.lookup(s[i + 3:e]))   # KeyError for unknown names
                i = e + 1
            else:
                raise SyntaxError('incomplete \\N')
        else:
            out.append(c + d)
            i += 2
    return ''.join(out)


def strip_alnum_escapes(s):
    """Without RAWCHARS `\\x41` is an escaped `x` followed by `41`: spell every `\\<alnum>` as the plain character."""
    out = []
    i = 0
    n = len(s)
    while i < n:
        c = s[i]
        if c == '\\' and i + 1 < n:
            d = s[i + 1]
            if d.isalnum() and d.isascii():
                out.append(d)
            else:
                out.append(c + d)
            i += 2
        else:
            out.append(c)
            i += 1
    return ''.join(out)


CONFIGS = []
for _mode in ('fn', 'glob'):
    for _plat in ('U', 'W'):
        for _b in (False, True):
            CONFIGS.append((_mode, _plat, _b))


def _flags(mode, plat):
    mod = F if mode == 'fn' else G
    fl = mod.FORCEUNIX if plat == 'U' else mod.FORCEWIN
    fl |= mod.EXTMATCH
    return mod, fl


def _call(fn, *a, **k):
    try:
        return ('ok', fn(*a, **k))
    except (SyntaxError, LookupError, ValueError, TypeError) as e:
        return ('exc', type(e).__name__)


def _ref(p, is_bytes):
    try:
        return ('ok', decode(p, is_bytes))
    except SyntaxError:
        return ('exc', 'SyntaxError')
    except KeyError:
        return ('exc', 'KeyError')
    except Undefined:
        return ('undef', None)


def _enc(s, is_bytes):
    return s.encode('latin-1') if is_bytes else s


def eval_case(p, cfg, res, names_probe=True):
    """Evaluate one (pattern text, config) pair for both RAWCHARS on and off."""
    mode, plat, is_bytes = cfg
    mod, fl = _flags(mode, plat)
    if is_bytes and any(ord(c) > 255 for c in p):
        return
    pp = _enc(p, is_bytes)
    res.n['evaluations'] += 1
    # ---- RAWCHARS on
    exp = _ref(p, is_bytes)
    got = _call(mod.translate, pp, flags=fl | mod.RAWCHARS)
    inp = {'pattern': pp, 'mode': mode, 'plat': plat, 'raw': True}
    if exp[0] == 'undef':
        res.outcomes.add('undef')
    elif exp[0] == 'exc':
        res.outcomes.add('exc:' + exp[1])
        ok = got[0] == 'exc' and (got[1] == exp[1] or (exp[1] == 'KeyError' and got[1] in ('KeyError', 'LookupError')))
        if not ok:
            res.add_violation(ID, run.viol('raw-exception', inp, exp, got))
    else:
        d = exp[1]
        if is_bytes and any(ord(c) > 255 for c in d):
            return
        dd = _enc(d, is_bytes)
        want = _call(mod.translate, dd, flags=fl)
        if d != p:
            res.n['distinct_nontrivial'] += 1
        if got[0] == 'exc' or want[0] == 'exc':
            if got != want:
                res.add_violation(ID, run.viol('raw-exception', inp, want, got, 'decoded=%r' % (dd,)))
            res.outcomes.add('exc2')
        elif got == want:
            res.outcomes.add('text-equal' + ('-changed' if d != p else ''))
        else:
            res.n['aut_compares'] += 1
            c = langcmp.equal(mod.compile(pp, flags=fl | mod.RAWCHARS), mod.compile(dd, flags=fl), is_bytes)
            res.n['states'] += c.states
            res.n['transitions'] += c.transitions
            res.n['traces_validated_against_impl'] += c.traces
            if c.divergence:
                res.divergences.append(repr(c.divergence))
            res.outcomes.add('lang-equal' if c.witness is None else 'lang-differ')
            if c.witness is not None:
                inp2 = dict(inp, name=c.witness, decoded=dd)
                res.add_violation(ID, run.viol('raw-language', inp2, {'same_as_decoded': True}, {'accs': c.accs}))
        if names_probe and got[0] == 'ok' and want[0] == 'ok':
            # entry points other than translate: match on a few names
            match = mod.fnmatch if mode == 'fn' else mod.globmatch
            for nm in _probe_names(d):
                if is_bytes and any(ord(c) > 255 for c in nm):
                    continue
                n2 = _enc(nm, is_bytes)
                a = _call(match, n2, pp, flags=fl | mod.RAWCHARS)
                b = _call(match, n2, dd, flags=fl)
                res.n['api_probes'] += 1
                if a != b:
                    res.add_violation(ID, run.viol('raw-match', dict(inp, name=n2, decoded=dd), b, a))
    # ---- RAWCHARS off: nothing is decoded
    p2 = strip_alnum_escapes(p)
    if p2 != p:
        inp = {'pattern': pp, 'mode': mode, 'plat': plat, 'raw': False}
        got = _call(mod.translate, pp, flags=fl)
        want = _call(mod.translate, _enc(p2, is_bytes), flags=fl)
        res.n['evaluations'] += 1
        res.n['distinct_nontrivial'] += 1
        if got == want:
            res.outcomes.add('noraw-text-equal')
        elif got[0] == 'exc' or want[0] == 'exc':
            res.add_violation(ID, run.viol('noraw-exception', inp, want, got))
        else:
            res.n['aut_compares'] += 1
            c = langcmp.equal(mod.compile(pp, flags=fl), mod.compile(_enc(p2, is_bytes), flags=fl), is_bytes)
            res.n['states'] += c.states
            res.n['transitions'] += c.transitions
            res.n['traces_validated_against_impl'] += c.traces
            res.outcomes.add('noraw-lang-equal' if c.witness is None else 'noraw-lang-differ')
            if c.witness is not None:
                res.add_violation(ID, run.viol('noraw-language', dict(inp, name=c.witness, stripped=_enc(p2, is_bytes)),
                                               {'same_as_stripped': True}, {'accs': c.accs}))


def _probe_names(d):
    """A few names likely to separate meanings: the decoded text with backslashes dropped, and variants."""
    base = d.replace('\\', '')
    out = []
    for nm in (base, base.replace('*', 'zz'), 'a', 'x41'):
        if nm and nm not in out:
            out.append(nm)
    return out


TREE_FILES = ['a', 'A', 'x41', 'D', '!', 'a4', '1', 'J', '41', 'u', 'N', '$']


def wcmatch_probe(p, root, res):
    """WcMatch file_pattern with RAWCHARS vs decoded pattern (str and bytes roots)."""
    for is_bytes in (False, True):
        exp = _ref(p, is_bytes)
        if exp[0] != 'ok':
            continue
        d = exp[1]
        if d == p or (is_bytes and any(ord(c) > 255 for c in d + p)):
            continue
        r = _enc(root, is_bytes)
        a = _call(lambda: sorted(WM.WcMatch(r, _enc(p, is_bytes), flags=WM.RAWCHARS | WM.EXTMATCH).match()))
        b = _call(lambda: sorted(WM.WcMatch(r, _enc(d, is_bytes), flags=WM.EXTMATCH).match()))
        res.n['wcmatch_probes'] += 1
        res.n['evaluations'] += 1
        if a != b:
            base = os.path.basename
            res.add_violation(ID, run.viol('raw-wcmatch', {'pattern': _enc(p, is_bytes), 'files': TREE_FILES,
                                                            'decoded': _enc(d, is_bytes)},
                                           ('ok', [base(x) for x in b[1]]) if b[0] == 'ok' else b,
                                           ('ok', [base(x) for x in a[1]]) if a[0] == 'ok' else a))


def _mktree():
    root = tempfile.mkdtemp(prefix='vfc20_', dir=bind.scratch_base())
    for f in TREE_FILES:
        open(os.path.join(root, f), 'w').close()
    return root


# ---------------------------------------------------------------- entry-point layer: encoded *structural* metacharacters
# BRACE / SPLIT / NEGATE act on the pattern text before it is parsed; a RAWCHARS-encoded `{ , } | ! -` must take part in
# that exactly like the literal character, in every entry point (matchers, translate, filters, the walker, pathlib, WcMatch).

EP_FILES = ['a', 'b', 'c', '{a,b}', 'a|b', '!a', '-a', 'a,b', '.h', 'd/a', 'd/b', 'd/{a,b}']
EP_BASES = [('{a,b}', 'B'), ('{a,b}', ''), ('a|b', 'S'), ('a|b', ''), ('!a', 'N'), ('!a', ''), ('-a', 'NM'), ('-a', 'N'),
            ('{a,b}|c', 'BS'), ('{a|b,c}', 'BS'), ('*|!a', 'NS'), ('d/{a,b}', 'B'), ('*/{a,b}', 'B'), ('**/a|b', 'S'),
            ('{a,b', 'B'), ('a,b}', 'B'), ('@(a|b)', 'S'), ('@(a|b)', ''), ('[a|b]', 'S'), ('{a..c}', 'B'), ('{a..c}', ''),
            ('\\{a,b}', 'B'), ('*', 'N'), ('!*|a', 'NS'), ('{!a,b}', 'NB'), ('-*|a', 'NMS')]
EP_META = '{},|!-.'
EP_FORMS = [lambda c: '\\x%02x' % ord(c), lambda c: '\\%03o' % ord(c), lambda c: '\\u%04x' % ord(c),
            lambda c: '\\N{%s}' % unicodedata.name(c)]
EP_FLAGS = {'B': 'BRACE', 'S': 'SPLIT', 'N': 'NEGATE', 'M': 'MINUSNEGATE'}


def ep_flags(mod, letters):
    fl = mod.EXTMATCH if mod is F else (mod.EXTGLOB | mod.GLOBSTAR)
    for ch in letters:
        fl |= getattr(mod, EP_FLAGS[ch])
    return fl


def ep_tree():
    root = tempfile.mkdtemp(prefix='vfc20e_', dir=bind.scratch_base())
    for f in EP_FILES:
        full = os.path.join(root, f)
        os.makedirs(os.path.dirname(full), exist_ok=True)
        open(full, 'w').close()
    return root


def ep_variants(base, is_bytes):
    """Every spelling of `base` with one or two of its structural characters written as an escape."""
    pos = [i for i, c in enumerate(base) if c in EP_META and (i == 0 or base[i - 1] != '\\')]
    forms = EP_FORMS[:2] if is_bytes else EP_FORMS
    out = []
    for r in (1, 2):
        for comb in itertools.combinations(pos, r):
            for fs in itertools.product(range(len(forms)), repeat=r):
                if r == 2 and fs[0] != fs[1] and (fs[0] + fs[1]) % 2:
                    continue   # thin mixed-form pairs
                t = list(base)
                for i, fi in zip(comb, fs):
                    t[i] = forms[fi](base[i])
                out.append(''.join(t))
    return out


def ep_observe(entry, pat, letters, raw, root, is_bytes):
    """One observation of one entry point; `pat` is text, encoded here."""
    pp = _enc(pat, is_bytes)
    r = _enc(root, is_bytes)
    names = [_enc(f, is_bytes) for f in EP_FILES]
    if entry in ('fn.filter', 'fn.translate'):
        fl = ep_flags(F, letters) | (F.RAWCHARS if raw else 0)
        base_names = [n for n in names if (b'/' if is_bytes else '/') not in n]
        if entry == 'fn.filter':
            return _call(lambda: sorted(F.filter(base_names, pp, flags=fl)))
        return _call(lambda: [len(x) for x in F.translate(pp, flags=fl)])
    fl = ep_flags(G, letters) | (G.RAWCHARS if raw else 0)
    if entry == 'globfilter':
        return _call(lambda: sorted(G.globfilter(names, pp, flags=fl)))
    if entry == 'translate':
        return _call(lambda: [len(x) for x in G.translate(pp, flags=fl)])
    if entry == 'glob':
        return _call(lambda: sorted(G.glob(pp, flags=fl, root_dir=r)))
    if entry == 'iglob':
        return _call(lambda: sorted(G.iglob([pp], flags=fl, root_dir=r)))
    if entry == 'realpath':
        return _call(lambda: sorted(n for n in names if G.globmatch(n, pp, flags=fl | G.REALPATH, root_dir=r)))
    if entry == 'pathlib':
        from wcmatch import pathlib as P
        fl = ep_flags(P, letters) | (P.RAWCHARS if raw else 0)
        return _call(lambda: sorted(str(x.relative_to(root)) for x in P.Path(root).glob(pat, flags=fl)))
    if entry == 'pathlib.match':
        from wcmatch import pathlib as P
        fl = ep_flags(P, letters) | (P.RAWCHARS if raw else 0)
        return _call(lambda: sorted(f for f in EP_FILES if P.PurePosixPath(f).globmatch(pat, flags=fl)))
    if entry == 'wcmatch':
        fl = WM.EXTMATCH | WM.RECURSIVE | (WM.RAWCHARS if raw else 0)
        for ch in letters:
            if ch in 'BM':
                fl |= getattr(WM, EP_FLAGS[ch])
        return _call(lambda: sorted(os.path.relpath(x, r) for x in WM.WcMatch(r, pp, flags=fl).match()))
    if entry == 'wcmatch.exclude':
        fl = WM.EXTMATCH | WM.RECURSIVE | (WM.RAWCHARS if raw else 0)
        for ch in letters:
            if ch in 'BM':
                fl |= getattr(WM, EP_FLAGS[ch])
        return _call(lambda: sorted(os.path.relpath(x, r) for x in WM.WcMatch(r, _enc('*', is_bytes), pp, flags=fl).match()))
    raise ValueError(entry)


EP_ENTRIES = ['fn.filter', 'fn.translate', 'globfilter', 'translate', 'glob', 'iglob', 'realpath', 'pathlib', 'pathlib.match',
              'wcmatch', 'wcmatch.exclude']


def ep_case(base, letters, enc, is_bytes, root, res):
    for entry in EP_ENTRIES:
        if is_bytes and entry.startswith('pathlib'):
            continue
        want = ep_observe(entry, base, letters, False, root, is_bytes)
        got = ep_observe(entry, enc, letters, True, root, is_bytes)
        res.n['evaluations'] += 1
        res.n['entry_point_compares'] += 1
        if want[0] == 'ok' and len(want[1]) not in (0, len(EP_FILES)):
            res.n['distinct_nontrivial'] += 1
        if got != want:
            res.outcomes.add('entry-differs')
            res.add_violation(ID, run.viol('raw-entry', {'pattern': _enc(enc, is_bytes), 'decoded': _enc(base, is_bytes),
                                                         'flags': letters, 'entry': entry, 'files': EP_FILES}, want, got))
        else:
            res.outcomes.add('entry-equal:' + entry)


def ep_layer(res, part, parts):
    root = ep_tree()
    try:
        k = 0
        for base, letters in EP_BASES:
            for is_bytes in (False, True):
                for enc in ep_variants(base, is_bytes):
                    k += 1
                    if k % parts != part:
                        continue
                    if decode(enc, is_bytes) != base:
                        raise run.HarnessError('C20 entry layer: decoder disagrees on %r' % enc)
                    ep_case(base, letters, enc, is_bytes, root, res)
        res.samples.append({'layer': 'entry-points', 'base': EP_BASES[0][0], 'encoded': ep_variants(EP_BASES[0][0], False)[:3]})
    finally:
        shutil.rmtree(root, ignore_errors=True)


def strings(alpha, length, prefix):
    for tup in itertools.product(alpha, repeat=length - len(prefix)):
        yield prefix + ''.join(tup)


def plan(tier, seed):
    chunks = []
    layers = []
    if tier == 'quick':
        la, lb, wm = 5, 4, 4
    else:
        la, lb, wm = 6, 6, 5
    for name, alpha, maxlen in (('A', ALPHA_A, la), ('B', ALPHA_B, lb)):
        chunks.append(('short', alpha, 2, wm))
        for pre in itertools.product(alpha, repeat=2):
            chunks.append(('pre', alpha, ''.join(pre), maxlen, wm))
        layers.append({'alphabet': alpha, 'max_len': maxlen, 'exhaustive': True,
                       'strings': sum(len(alpha) ** k for k in range(1, maxlen + 1))})
    if tier == 'thorough':
        # one residue class (1/12) of length-7 strings over alphabet A, chosen by the seed
        first = ALPHA_A[seed % len(ALPHA_A)]
        for c2 in ALPHA_A:
            chunks.append(('exact', ALPHA_A, first + c2, 7))
        layers.append({'alphabet': ALPHA_A, 'len': 7, 'exhaustive': False, 'first_char': first,
                       'strings': len(ALPHA_A) ** 6})
    chunks.append(('catalog',))
    for part in range(16):
        chunks.append(('entry', part, 16))
    layers.append({'entry_points': EP_ENTRIES, 'bases': ['%s/%s' % b for b in EP_BASES], 'encodings': 'every 1 or 2 structural '
                   'characters written as \\xHH, \\OOO, \\uHHHH or \\N{NAME}', 'tree': EP_FILES, 'exhaustive': True})
    layers.append({'catalog': len(CATALOG_ESC) * len(CATALOG_PRE) * len(CATALOG_POST), 'exhaustive': True})
    return {
        'chunks': chunks,
        'coverage': {'layers': layers, 'configs': ['%s/%s/%s' % (m, p, 'bytes' if b else 'str') for m, p, b in CONFIGS],
                     'exhaustive': True},
        'rule': 'every string over the reduced alphabets up to the stated length x 8 configs x RAWCHARS on/off; '
                'non-trivial = the independent decoder changes the text (RAWCHARS on) or the text contains an '
                'escaped alphanumeric (RAWCHARS off); counted per (string, config)',
        'assumptions': ['identical translate() text implies identical meaning (same code path after norm_pattern)',
                        '\\U values above 0x10ffff count as undecodable (SyntaxError)',
                        'regex->automaton translation is bound to CPython re by replaying every product state'],
        'nontrivial_floor': 1000,
    }


def run_chunk(chunk):
    res = run.ChunkResult()
    kind = chunk[0]
    root = None
    try:
        if kind == 'entry':
            ep_layer(res, chunk[1], chunk[2])
            return res
        if kind == 'catalog':
            root = _mktree()
            for pre in CATALOG_PRE:
                for esc in CATALOG_ESC:
                    for post in CATALOG_POST:
                        p = pre + esc + post
                        for cfg in CONFIGS:
                            eval_case(p, cfg, res)
                        wcmatch_probe(p, root, res)
            res.samples.append({'pattern': CATALOG_PRE[3] + CATALOG_ESC[1] + CATALOG_POST[1], 'layer': 'catalog'})
            return res
        if kind == 'short':
            _, alpha, maxlen, wm = chunk
            todo = (''.join(t) for L in range(1, maxlen + 1) for t in itertools.product(alpha, repeat=L))
        elif kind == 'pre':
            _, alpha, pre, maxlen, wm = chunk
            todo = (s for L in range(3, maxlen + 1) for s in strings(alpha, L, pre))
        else:
            _, alpha, pre, L = chunk
            wm = 0
            todo = strings(alpha, L, pre)
        k = 0
        for p in todo:
            for cfg in CONFIGS:
                eval_case(p, cfg, res, names_probe=len(p) <= 5)
            if len(p) <= wm and '\\' in p:
                if root is None:
                    root = _mktree()
                wcmatch_probe(p, root, res)
            k += 1
            if k == 777:
                res.samples.append({'pattern': p, 'decoded_str': _ref(p, False), 'decoded_bytes': _ref(p, True)})
        return res
    finally:
        if root:
            shutil.rmtree(root, ignore_errors=True)


def replay(v):
    """Plain re-execution of one violating case on the public API."""
    inp = v['input']
    kind = v['kind']
    pp = inp['pattern']
    is_bytes = isinstance(pp, bytes)
    p = pp.decode('latin-1') if is_bytes else pp
    if kind == 'raw-entry':
        root = ep_tree()
        try:
            want = ep_observe(inp['entry'], inp['decoded'].decode('latin-1') if is_bytes else inp['decoded'], inp['flags'], False,
                              root, is_bytes)
            got = ep_observe(inp['entry'], p, inp['flags'], True, root, is_bytes)
            return {'violates': got != want, 'observed': got}
        finally:
            shutil.rmtree(root, ignore_errors=True)
    if kind == 'raw-wcmatch':
        root = _mktree()
        try:
            d = decode(p, is_bytes)
            a = _call(lambda: sorted(WM.WcMatch(_enc(root, is_bytes), pp, flags=WM.RAWCHARS | WM.EXTMATCH).match()))
            b = _call(lambda: sorted(WM.WcMatch(_enc(root, is_bytes), _enc(d, is_bytes), flags=WM.EXTMATCH).match()))
            base = os.path.basename
            a = ('ok', [base(x) for x in a[1]]) if a[0] == 'ok' else a
            b = ('ok', [base(x) for x in b[1]]) if b[0] == 'ok' else b
            return {'violates': a != b, 'observed': a}
        finally:
            shutil.rmtree(root, ignore_errors=True)
    mod, fl = _flags(inp['mode'], inp['plat'])
    match = mod.fnmatch if inp['mode'] == 'fn' else mod.globmatch
    if kind == 'raw-exception':
        exp = _ref(p, is_bytes)
        got = _call(mod.translate, pp, flags=fl | mod.RAWCHARS)
        if exp[0] == 'exc':
            ok = got[0] == 'exc' and (got[1] == exp[1] or (exp[1] == 'KeyError' and got[1] in ('KeyError', 'LookupError')))
            return {'violates': not ok, 'observed': got}
        want = _call(mod.translate, _enc(exp[1], is_bytes), flags=fl)
        return {'violates': got != want, 'observed': got}
    if kind in ('raw-language', 'raw-match'):
        d = decode(p, is_bytes)
        a = _call(match, inp['name'], pp, flags=fl | mod.RAWCHARS)
        b = _call(match, inp['name'], _enc(d, is_bytes), flags=fl)
        return {'violates': a != b, 'observed': {'raw': a, 'decoded': b}}
    if kind == 'noraw-exception':
        got = _call(mod.translate, pp, flags=fl)
        want = _call(mod.translate, _enc(strip_alnum_escapes(p), is_bytes), flags=fl)
        return {'violates': got != want, 'observed': got}
    if kind == 'noraw-language':
        a = _call(match, inp['name'], pp, flags=fl)
        b = _call(match, inp['name'], _enc(strip_alnum_escapes(p), is_bytes), flags=fl)
        return {'violates': a != b, 'observed': {'pattern': a, 'stripped': b}}
    raise ValueError(kind)
