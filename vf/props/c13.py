"""C13 - multi-pattern glob is the de-duplicated union minus exclusions.

FSX exploration: in every state, for every constructed list of 1..3 inclusion patterns from an overlapping pool with
0..2 exclusions x flag set x presentation (list + exclude=, inline !e with NEGATE, '|'-joined under SPLIT, {..}
under BRACE, exclusions alone with NEGATEALL, pathlib Path.glob): the result as a set equals the union of the real
single-pattern results minus everything an exclusion pattern matches (directory slash appended, DOTGLOB forced);
no element twice under the case rule in force; with NOUNIQUE the list is the in-order concatenation.
"""
import itertools
import os

from .. import bind, run, fsx, fscommon, refglob
from wcmatch import glob as G, pathlib as WP

ID = 'C13'
LEVEL = 'exploration'
REPLAY_DEADLINE = 120

POOL = ['*', 'a', 'a*', '*/', '**', 'a/*', '*/a', '.h', '.*', '[ab]', './a', 'b', 'a/.*']
POOL_CASE = ['*', 'a', 'A', '[aA]', 'a*', 'A*', '*/', '**', 'b']
EXCL = ['a', '*/', '**/a', '.h', 'b*', 'a']
EXCL_CASE = ['a', 'A*', '*/']
BASES = ['GE', 'GEQ', 'GEO', 'GEY', 'GDE', 'GEYQ']
BASES_CASE = ['GEI', 'GEIQ', 'GEC', 'GEIY', 'GEW', 'GEWC']


ODD_STATE = ['a', 'a\n', 'b\n', '.h\n', 'd/', 'd/a', 'd/a\n', 'a\\']
ODD_STATE2 = ['a\n/', 'a\n/a', 'a/', 'a/a\n', 'b', '.h', 'a/\n', 'a/.\n', '.\n']


def gl(p, fs, root, **kw):
    return G.glob(p, flags=fscommon.gflags(fs), root_dir=root, **kw)


def excluded(model, x, exs, fs):
    base = ''.join(c for c in fs if c in 'GEIC')
    name = x if x.endswith('/') or not _isdir(model, x) else x + '/'
    for e in exs:
        if G.globmatch(name, e, flags=fscommon.gflags(base + 'D')):
            return True
    return False


def _isdir(model, x):
    try:
        return model.isdir(x.rstrip('/') or '.')
    except fsx.Unknown:
        return False


def expected(model, root, inc, exs, fs):
    """In-order concatenation of the single-pattern results minus exclusions (and the NODIR rule applied per element)."""
    base = ''.join(c for c in fs if c in 'GEICDYOK')
    out = []
    for p in inc:
        for x in gl(p, base + 'Q', root):
            if not excluded(model, x, exs, fs):
                out.append(x)
    return out


def fold(xs, fs):
    ic = 'I' in fs and 'C' not in fs
    return [x.lower() if ic else x for x in xs]


def compare(res, inp, got, want, fs):
    res.n['evaluations'] += 1
    if want:
        res.n['distinct_nontrivial'] += 1
    if 'Q' in fs:
        ok = got == want
        res.outcomes.add('nounique-equal' if ok else 'nounique-differ')
        if not ok:
            res.add_violation(ID, run.viol('nounique-concatenation', inp, want[:40], got[:40]))
        return
    gs, ws = set(fold(got, fs)), set(fold(want, fs))
    if gs != ws:
        res.outcomes.add('set-differ')
        res.add_violation(ID, run.viol('union-minus-exclusions', inp, sorted(ws)[:40],
                                       {'result': sorted(gs)[:40], 'missing': sorted(ws - gs)[:10], 'extra': sorted(gs - ws)[:10]}))
        return
    # entries differing only in case are different files on this (case-sensitive) file system: only an identical
    # spelling returned twice is a duplicate
    if len(got) != len(set(got)):
        res.outcomes.add('duplicates')
        res.add_violation(ID, run.viol('duplicate-result', inp, 'no path twice', got[:40]))
        return
    res.outcomes.add('union-ok')


def check_state(desc, sc, pool, excl, bases, res, maxn, sh=0, ns=1):
    state = fsx.from_desc(desc)
    sc.load(state)
    model = fsx.Model(state)
    res.n['fs_states_evaluated'] += 1
    root = sc.root
    k = 0
    for n in range(1, maxn + 1):
        for inc in itertools.product(pool, repeat=n):
            for ne in (0, 1, 2):
                for exs in itertools.combinations(excl, ne):
                    k += 1
                    if k % ns != sh:
                        continue
                    inc = list(inc)
                    exs = list(exs)
                    fs = bases[k % len(bases)]
                    want = expected(model, root, inc, exs, fs)
                    inp0 = {'tree': desc, 'inclusions': inc, 'exclusions': exs, 'flags': fs}
                    # exclude=
                    compare(res, dict(inp0, how='exclude='), gl(inc, fs, root, exclude=exs or None), want, fs)
                    # inline negation
                    if exs:
                        compare(res, dict(inp0, how='inline'), gl(inc + ['!' + e for e in exs], fs + 'N', root), want, fs)
                        compare(res, dict(inp0, how='inline-first'), gl(['!' + e for e in exs] + inc, fs + 'N', root), want, fs)
                    # SPLIT / BRACE presentations of the same pieces
                    if not any('|' in p for p in inc + exs):
                        compare(res, dict(inp0, how='split'), gl('|'.join(inc + ['!' + e for e in exs]), fs + 'NS', root), want, fs)
                    if len(inc) > 1 and not exs and not any(set(p) & set('{},') for p in inc):
                        compare(res, dict(inp0, how='brace'), gl('{' + ','.join(inc) + '}', fs + 'B', root), want, fs)
                    # pathlib: same set, joined on the root, no duplicates
                    if k % 5 == 0 or k % 7 == 0:
                        pf = fscommon.gflags(''.join(c for c in fs if c in 'GEDIQCOY'))
                        try:
                            pg = [str(x) for x in WP.Path(root).glob(inc, flags=pf, exclude=exs or None)]
                        except Exception as e:  # noqa: BLE001
                            res.add_violation(ID, run.viol('pathlib-raises', dict(inp0, how='pathlib'), 'a list', type(e).__name__))
                            continue
                        if 'Q' in fs:
                            # NOUNIQUE: the concatenation, every occurrence kept
                            wantq = sorted(str(WP.Path(root, x)) for x in want)
                            if sorted(pg) != wantq and ('I' not in fs or 'C' in fs):
                                res.add_violation(ID, run.viol('pathlib-nounique', dict(inp0, how='pathlib'),
                                                               [os.path.relpath(x, root) for x in wantq][:40],
                                                               sorted(os.path.relpath(x, root) for x in pg)[:40]))
                        if 'Q' not in fs and len(pg) != len(set(pg)):
                            res.add_violation(ID, run.viol('duplicate-result', dict(inp0, how='pathlib'), 'no path twice', [os.path.relpath(x, root) for x in pg][:40]))
                        elif 'I' not in fs or 'C' in fs:
                            # ... and none lost: the same files as the plain call, in pathlib's spelling
                            wantp = set(str(WP.Path(root, x)) for x in want)
                            if set(pg) != wantp:
                                res.add_violation(ID, run.viol('pathlib-set-differs', dict(inp0, how='pathlib'),
                                                               sorted(os.path.relpath(x, root) for x in wantp)[:40],
                                                               sorted(os.path.relpath(x, root) for x in set(pg))[:40]))
    # an absolute pattern followed by relative ones in the same call (root_dir differs from the cwd)
    esc = G.escape(root)
    for rel in (['*/a'], ['a/*'], ['*/*', 'a'], ['**/a'], ['b', '*/b'], ['.h/*']):
        for first in ('a', '*', 'a/*'):
            for fs in ('GE', 'GEQ'):
                pats_ = [esc + '/' + first] + rel
                want = [x for x in gl(esc + '/' + first, fs + 'Q', root)]
                for p in rel:
                    want += gl(p, fs + 'Q', root)
                inp0 = {'tree': desc, 'inclusions': ['<ROOT>/' + first] + rel, 'exclusions': [], 'flags': fs, 'how': 'abs-then-rel'}
                got = gl(pats_, fs, root)
                compare(res, inp0, [x.replace(root, '<ROOT>') for x in got], [x.replace(root, '<ROOT>') for x in want], fs)
    # exclusions alone: nothing, or everything-except with NEGATEALL
    for exs in ([excl[0]], excl[:2]):
        for fs in bases[:2]:
            inp0 = {'tree': desc, 'inclusions': [], 'exclusions': exs, 'flags': fs}
            compare(res, dict(inp0, how='negation-only'), gl(['!' + e for e in exs], fs + 'N', root), [], fs)
            want = expected(model, root, ['**'], exs, fs + 'G')
            compare(res, dict(inp0, how='negateall'), gl(['!' + e for e in exs], fs + 'NA', root), want, fs)


def plan(tier, seed):
    st_chunks, cov = fscommon.state_chunks(tier, seed, quick=(2, 3, 16), thorough=(3, 4, 16), extra_roots=fscommon.SEED_STATES[:3],
                                           per_chunk=6)
    chunks = [('std', c, 2 if tier == 'quick' else 3) for c in st_chunks]
    cs_chunks, cov2 = fscommon.state_chunks(tier, seed, quick=(2, 2, 1), thorough=(3, 3, 1), names=('a', 'A', 'b'), per_chunk=6)
    chunks += [('case', c, 2 if tier == 'quick' else 3) for c in cs_chunks]
    # names ending in a newline or a backslash: an exclusion that matches `a` does not match `a\n`
    chunks += [('std', [ODD_STATE], 2), ('std', [ODD_STATE2], 2)]
    cov['case_layer'] = cov2
    cov.update({'pool': POOL, 'pool_case': POOL_CASE, 'exclusions': EXCL, 'bases': BASES, 'bases_case': BASES_CASE,
                'presentations': ['exclude=', 'inline', 'inline-first', 'split', 'brace', 'pathlib', 'negation-only', 'negateall'],
                'exhaustive': True})
    return {
        'chunks': chunks,
        'coverage': cov,
        'rule': 'every explored file-system state x every ordered list of 1..n pool patterns x 0..2 exclusions (flag set '
                'rotating over the list index; list space thinned 1/4 in quick) x presentations; expected value assembled '
                'from the real single-pattern glob results and the real single-pattern matcher; non-trivial = evaluations '
                'whose expected result is non-empty',
        'assumptions': ['single-pattern glob() and globmatch() are the sub-oracles (C05 / C02 decide those)',
                        'under IGNORECASE results are compared modulo case folding'],
        'nontrivial_floor': 500,
    }


def run_chunk(chunk):
    kind, descs, maxn = chunk
    res = run.ChunkResult()
    sc = fsx.Scratch()
    try:
        for i, d in enumerate(descs):
            if kind == 'std':
                check_state(d, sc, POOL, EXCL, BASES, res, maxn, sh=i % 4, ns=4)
            else:
                check_state(d, sc, POOL_CASE, EXCL_CASE, BASES_CASE, res, maxn, sh=i % 2, ns=2)
        res.samples.append({'tree': descs[0], 'inclusions': POOL[:2], 'exclusions': EXCL[:1], 'flags': BASES[0]})
    finally:
        sc.close()
    return res


def replay(v):
    inp = v['input']
    sc = fsx.Scratch()
    try:
        state = fsx.from_desc(inp['tree'])
        sc.load(state)
        model = fsx.Model(state)
        root = sc.root
        inc, exs, fs, how = inp['inclusions'], inp['exclusions'], inp['flags'], inp['how']
        if how == 'abs-then-rel':
            pats_ = [p.replace('<ROOT>', G.escape(root)) for p in inc]
            want = []
            for p in pats_:
                want += gl(p, fs + 'Q', root)
            got = gl(pats_, fs, root)
            r = run.ChunkResult()
            compare(r, inp, [x.replace(root, '<ROOT>') for x in got], [x.replace(root, '<ROOT>') for x in want], fs)
            return {'violates': bool(r.viol) or bool(r.known), 'observed': [x.replace(root, '<ROOT>') for x in got][:40]}
        if how == 'exclude=':
            got = gl(inc, fs, root, exclude=exs or None)
        elif how == 'inline':
            got = gl(inc + ['!' + e for e in exs], fs + 'N', root)
        elif how == 'inline-first':
            got = gl(['!' + e for e in exs] + inc, fs + 'N', root)
        elif how == 'split':
            got = gl('|'.join(inc + ['!' + e for e in exs]), fs + 'NS', root)
        elif how == 'brace':
            got = gl('{' + ','.join(inc) + '}', fs + 'B', root)
        elif how == 'negation-only':
            got = gl(['!' + e for e in exs], fs + 'N', root)
        elif how == 'negateall':
            got = gl(['!' + e for e in exs], fs + 'NA', root)
        elif how == 'pathlib':
            pf = fscommon.gflags(''.join(c for c in fs if c in 'GEDIQCOY'))
            pg = [str(x) for x in WP.Path(root).glob(inc, flags=pf, exclude=exs or None)]
            if v['kind'] == 'pathlib-nounique':
                wantq = sorted(str(WP.Path(root, x)) for x in expected(model, root, inc, exs, fs))
                return {'violates': sorted(pg) != wantq, 'observed': sorted(os.path.relpath(x, root) for x in pg)[:40]}
            if v['kind'] == 'pathlib-set-differs':
                wantp = set(str(WP.Path(root, x)) for x in expected(model, root, inc, exs, fs))
                return {'violates': set(pg) != wantp, 'observed': sorted(os.path.relpath(x, root) for x in set(pg))[:40]}
            return {'violates': len(pg) != len(set(pg)), 'observed': [os.path.relpath(x, root) for x in pg][:40]}
        if how == 'negation-only':
            want = []
        elif how == 'negateall':
            want = expected(model, root, ['**'], exs, fs + 'G')
        else:
            want = expected(model, root, inc, exs, fs)
        r = run.ChunkResult()
        compare(r, inp, got, want, fs)
        return {'violates': bool(r.viol) or bool(r.known), 'observed': got[:40]}
    finally:
        sc.close()
