"""C09 - escape makes any string literal; non-magic patterns are literal.

For every string s over a metacharacter alphabet x flag subsets x {FORCEUNIX, FORCEWIN} x {fnmatch.escape on
names, glob.escape on paths}: the language of escape(s) used as a pattern equals the singleton {s} modulo the
stated equivalences (ASCII case in insensitive modes, separator spelling under Windows rules, separator runs and
trailing separators in path mode).  The singleton language is written as a regex straight from s and both
automata are compared by exhaustive product exploration (an exact 'nothing else' check).  Conversely every
enumerated p with is_magic(p, flags) False must denote exactly {p}.
"""
import itertools
import re

from .. import bind, run, impl, langcmp
from wcmatch import glob as G, fnmatch as F, _wcmatch

ID = 'C09'
LEVEL = 'model_checking'

ALPHA = ['*', '?', '[', ']', '(', ')', '|', '{', '}', '\\', '/', '.', '~', '-', '!', 'a', '\n', '\xe9', 'A']
FLAGBITS = {'E': F.EXTMATCH, 'B': F.BRACE, 'S': F.SPLIT, 'N': F.NEGATE, 'M': F.MINUSNEGATE, 'A': F.NEGATEALL,
            'T': G.GLOBTILDE, 'G': G.GLOBSTAR, 'D': F.DOTMATCH, 'Z': G.NODOTDIR, 'R': F.RAWCHARS, 'I': F.IGNORECASE,
            'C': F.CASE, 'X': G.MATCHBASE}
LETTERS = 'EBSNMATGDZRI'
FN_OK = set('EBSNMADRIC')


def all_subsets(letters):
    out = ['']
    for ch in letters:
        out += [x + ch for x in out]
    return out


def covering(letters, kmax=2):
    """Covering family: all subsets of size <= kmax, their complements, plus all / none."""
    out = {''}
    L = list(letters)
    for k in range(1, kmax + 1):
        for c in itertools.combinations(L, k):
            out.add(''.join(c))
            out.add(''.join(x for x in L if x not in c))
    out.add(letters)
    return sorted(out)


def singleton_regex(s, mode, win, ic):
    """Regex of {s} modulo the equivalences of the mode, written from the statement."""
    seps = '/\\' if win else '/'
    sepcls = r'[\\/]' if win else '[/]'
    out = []
    i = 0
    n = len(s)
    while i < n:
        c = s[i]
        if c in seps and (mode == 'glob' or win):
            if mode == 'glob':
                while i < n and s[i] in seps:
                    i += 1
                out.append(sepcls + '+')
                continue
            out.append(sepcls)      # fnmatch under Windows rules: either separator, one for one
        else:
            out.append(re.escape(c))
        i += 1
    body = ''.join(out)
    if mode == 'glob':
        body += sepcls + '*'
    return '^(?s%s:%s)$' % ('i' if ic else '', body)


_cache = {}


def compare(m, ref_rx, res, inp, kind):
    w = impl.wcregexp(m)
    key = (tuple(r.pattern for r in w._include), tuple(r.pattern for r in (w._exclude or ())), ref_rx)
    r = _cache.get(key)
    if r is None:
        ref = _wcmatch.WcRegexp((re.compile(ref_rx),))
        c = langcmp.equal(m, ref, False)
        res.n['states'] += c.states
        res.n['transitions'] += c.transitions
        res.n['traces_validated_against_impl'] += c.traces
        res.n['distinct_nontrivial'] += 1
        if c.mode == 'fallback':
            res.n['fallback_cases'] += 1
        r = _cache[key] = (c.witness, c.accs)
        if len(_cache) > 200000:
            _cache.clear()
    res.outcomes.add(kind + (':singleton' if r[0] is None else ':not-singleton'))
    if r[0] is not None:
        res.add_violation(ID, run.viol(kind, dict(inp, name=r[0]), {'match': r[1][1]}, {'match': r[1][0]}))


def platform_modes(fs, plat):
    win = plat == 'W'
    ic = ('I' in fs or win) and 'C' not in fs
    return win, ic


def check_string(s, fs, plat, res):
    fl = 0
    for ch in fs:
        fl |= FLAGBITS[ch]
    win, ic = platform_modes(fs, plat)
    pf = F.FORCEWIN if win else F.FORCEUNIX
    # ---- fnmatch.escape on names
    if set(fs) <= FN_OK:
        res.n['evaluations'] += 1
        e = F.escape(s)
        inp = {'mode': 'fn', 's': s, 'escaped': e, 'flags': fs, 'plat': plat}
        try:
            m = F.compile(e, flags=fl | pf)
        except Exception as ex:  # noqa: BLE001
            res.add_violation(ID, run.viol('escape-raises', inp, 'compiles', {'exc': type(ex).__name__}))
        else:
            compare(m, singleton_regex(s, 'fn', win, ic), res, inp, 'escape')
        if not _magic(F, s, fl | pf):
            inp = {'mode': 'fn', 's': s, 'flags': fs, 'plat': plat}
            try:
                m = F.compile(s, flags=fl | pf)
            except Exception as ex:  # noqa: BLE001
                res.add_violation(ID, run.viol('nonmagic-raises', inp, 'compiles', {'exc': type(ex).__name__}))
            else:
                compare(m, singleton_regex(s, 'fn', win, ic), res, inp, 'nonmagic')
    # ---- bytes twins: the escaped bytes pattern accepts the bytes name itself and agrees with the str matcher on
    # near misses (every single deletion)
    try:
        sb = s.encode('latin-1')
    except UnicodeEncodeError:
        sb = None
    if sb is not None:
        variants = [s] + sorted({s[:i] + s[i + 1:] for i in range(len(s))} - {''})
        for mode, mod in (('fn', F), ('glob', G)):
            if mode == 'fn' and not set(fs) <= FN_OK:
                continue
            if mode == 'glob' and win and re.match(r'^([\\/]{2}|[a-zA-Z]:)', s):
                continue
            kw = {'unix': not win} if mode == 'glob' else {}
            try:
                ms = mod.compile(mod.escape(s, **kw), flags=fl | pf)
                mb = mod.compile(mod.escape(sb, **kw), flags=fl | pf)
                a = [bool(ms.match(x)) for x in variants]
                b = [bool(mb.match(x.encode('latin-1'))) for x in variants]
            except Exception as ex:  # noqa: BLE001
                a, b = 'ok', type(ex).__name__
            res.n['evaluations'] += 1
            if a != b:
                res.add_violation(ID, run.viol('escape-bytes-differs', {'mode': mode, 's': s, 'flags': fs, 'plat': plat,
                                                                        'names': variants}, a, b))
    # ---- glob.escape on paths
    res.n['evaluations'] += 1
    e = G.escape(s, unix=not win)
    if not win and not fs:
        # the default (unix=None) follows the host, and this host is not Windows
        e0 = G.escape(s)
        if e0 != e:
            res.add_violation(ID, run.viol('escape-default-platform', {'mode': 'glob', 's': s, 'flags': fs, 'plat': plat},
                                           {'escape': e}, {'escape': e0}))
    inp = {'mode': 'glob', 's': s, 'escaped': e, 'flags': fs, 'plat': plat}
    try:
        m = G.compile(e, flags=fl | pf)
    except Exception as ex:  # noqa: BLE001
        res.add_violation(ID, run.viol('escape-raises', inp, 'compiles', {'exc': type(ex).__name__}))
    else:
        if win and re.match(r'^[\\/]{2}', s):
            pass    # UNC-like starts are handled by the drive catalogue with two-sided bounds
        elif win and re.match(r'^[a-zA-Z]:', s):
            pass
        else:
            compare(m, singleton_regex(s, 'glob', win, ic), res, inp, 'escape')
    if not _magic(G, s, fl | pf) and not (win and re.match(r'^([\\/]{2}|[a-zA-Z]:)', s)):
        inp = {'mode': 'glob', 's': s, 'flags': fs, 'plat': plat}
        try:
            m = G.compile(s, flags=(fl | pf) & ~G.MATCHBASE)
        except Exception as ex:  # noqa: BLE001
            res.add_violation(ID, run.viol('nonmagic-raises', inp, 'compiles', {'exc': type(ex).__name__}))
        else:
            compare(m, singleton_regex(s, 'glob', win, ic), res, inp, 'nonmagic')


def _magic(mod, s, fl):
    try:
        return mod.is_magic(s, flags=fl)
    except Exception:  # noqa: BLE001
        return True


# ---------------------------------------------------------------- Windows drive / UNC shapes

DRIVE_SHAPES = ['c:/x', 'C:\\x', 'c:', 'c:/', '//h/s/x', '\\\\h\\s\\x', '//h/s', '//h/s/', '//?/UNC/h/s/x', '//?/c:/x',
                '//h/s{a}/x', '//h/s|t/x', '//h/{s,t}/x', '//h/s/{a,b}', '//h/s/a|b', '//h/s/*', '//h*/s/x', '//h/s[a]/x',
                '//./c:/x', 'c:/{a,b}', 'c:/a|b', '//?/GLOBAL/UNC/h/s/x', '//h/s\\x/y', '//?/GLOBAL/UNC/h*/s/x',
                '//?/GLOBAL/UNC/h[1]/s?/x', '//?/UNC/h*/s/x', '//./GLOBAL/GLOBAL/UNC/h(/s)/x', '//?/GLOBAL/c:/x*', '//h!/-s/~x',
                # an extended prefix that stops short of a full UNC drive (UNCSHORT)
                '//?/unc/x', '//?/unc', '//?/global/unc/x', '//./unc/x', '//?/UNC/h']


def drive_bounds(s):
    """(strict regex body, loose regex body) for the whole string s (drive/UNC shaped), written from the statement:
    every character matches itself case-insensitively, separators match either separator; the strict form keeps
    the separator counts of the prefix as written, the loose form tolerates runs everywhere."""
    def conv(loose):
        out = []
        i = 0
        n = len(s)
        while i < n:
            c = s[i]
            if c in '/\\':
                j = i
                while j < n and s[j] in '/\\':
                    j += 1
                run_ = j - i
                if loose:
                    out.append(r'[\\/]{%d,}' % run_)
                else:
                    out.append(r'[\\/]{%d}' % run_)
                i = j
            else:
                out.append('(?i:%s)' % re.escape(c))
                i += 1
        return ''.join(out)
    return conv(False), conv(True) + r'[\\/]*'


def check_drives(res):
    # on a Unix host (or with unix=True) the same strings are ordinary paths
    for sh in DRIVE_SHAPES:
        for fs in ('', 'E', 'EBS', 'EBSNDGZ'):
            check_string(sh, fs, 'U', res)
        # file-name matching has no drives, whatever the platform rules
        for fs in ('', 'E', 'EBS'):
            check_string(sh, fs, 'W', res)
        # the bytes copy of escape() escapes what the str copy escapes
        for kw in ({'unix': False}, {'unix': True}, {}):
            res.n['evaluations'] += 1
            a, b = G.escape(sh, **kw), G.escape(sh.encode('latin-1'), **kw)
            if a.encode('latin-1') != b:
                res.add_violation(ID, run.viol('escape-bytes-text', {'mode': 'glob', 's': sh, 'flags': '', 'plat': 'W' if kw.get('unix') is False else 'U',
                                                                     'kw': kw}, a, b))
    for fs in covering('EBSNDGZI') + ['C', 'CEBS']:
        fl = 0
        for ch in fs:
            fl |= FLAGBITS[ch]
        for s in DRIVE_SHAPES:
            res.n['evaluations'] += 1
            e = G.escape(s, unix=False)
            inp = {'mode': 'glob', 's': s, 'escaped': e, 'flags': fs, 'plat': 'W'}
            try:
                m = G.compile(e, flags=fl | G.FORCEWIN)
            except Exception as ex:  # noqa: BLE001
                res.add_violation(ID, run.viol('escape-raises', inp, 'compiles', {'exc': type(ex).__name__}))
                continue
            lo, hi = drive_bounds(s)
            ic = 'i' if 'C' not in fs else ''
            # after the drive prefix the rest follows the case mode; with CASE the bounds are: lo uses exact rest
            lo_rx = '^(?s%s:%s)$' % (ic, lo if not ic == '' else _case_rest(s, False))
            hi_rx = '^(?s%s:%s)$' % (ic, hi if not ic == '' else _case_rest(s, True))
            w = impl.wcregexp(m)
            for kind, small, big in (('drive-escape-accepts-other', w._include, (re.compile(hi_rx),)),
                                     ('drive-escape-rejects-self', (re.compile(lo_rx),), w._include)):
                d = _wcmatch.WcRegexp(tuple(small), tuple(big))
                c = langcmp.equal(d, _wcmatch.WcRegexp(()), False)
                res.n['states'] += c.states
                res.n['transitions'] += c.transitions
                res.n['traces_validated_against_impl'] += c.traces
                res.n['distinct_nontrivial'] += 1
                res.outcomes.add(kind + (':ok' if c.witness is None else ':bad'))
                if c.witness is not None:
                    res.add_violation(ID, run.viol(kind, dict(inp, name=c.witness),
                                                   {'match': kind == 'drive-escape-rejects-self'},
                                                   {'match': kind != 'drive-escape-rejects-self'}))
    res.samples.append({'drive': '//h/s{a}/x', 'escaped': G.escape('//h/s{a}/x', unix=False)})


def _case_rest(s, loose):
    """CASE: the drive/UNC prefix stays case-insensitive, the rest is exact."""
    m = re.match(r'^(?:[\\/]{2}[?.][\\/](?:[a-zA-Z]:|(?i:unc)(?:[\\/][^\\/]+){2}|'
                 r'(?:(?i:global)[\\/])+(?:[a-zA-Z]:|(?i:unc)(?:[\\/][^\\/]+){2}|[^\\/]+))|'
                 r'[\\/]{2}[^\\/]+[\\/][^\\/]+|[a-zA-Z]:)', s)
    k = m.end() if m else 0
    out = []
    i = 0
    n = len(s)
    while i < n:
        c = s[i]
        if c in '/\\':
            j = i
            while j < n and s[j] in '/\\':
                j += 1
            out.append((r'[\\/]{%d,}' if loose else r'[\\/]{%d}') % (j - i))
            i = j
        else:
            out.append(('(?i:%s)' if i < k else '%s') % re.escape(c))
            i += 1
    return ''.join(out) + (r'[\\/]*' if loose else '')


# ---------------------------------------------------------------- escape on a real tree

ODD_NAMES = ['*', '[', 'a]', '!(', '{a,b}', 'a|b', '~', '-a', '!a', '?', '[a]', '@(a)', 'a*b', '**', '\\', 'a\\b', '(', ')', 'a b',
             '.*', '.[a]', '+(a)', '[!a]', '[]', '{', '}', 'a', 'b', 'ab', '.h']


def check_walk(res):
    """glob(glob.escape(name)) on a directory that holds files with metacharacter names returns exactly that file."""
    import os
    import shutil
    import tempfile
    root = tempfile.mkdtemp(prefix='vfc09_', dir=bind.scratch_base())
    try:
        os.mkdir(os.path.join(root, 'd'))
        for n in ODD_NAMES:
            open(os.path.join(root, n), 'w').close()
            open(os.path.join(root, 'd', n), 'w').close()
        for fs in covering('EBSNMAGDZI', 1) + ['EBSN', 'EBSNM', 'GDEBS']:
            fl = 0
            for ch in fs:
                fl |= FLAGBITS[ch]
            for n in ODD_NAMES:
                for pre in ('', 'd/'):
                    res.n['evaluations'] += 1
                    res.n['distinct_nontrivial'] += 1
                    p = G.escape(pre + n)
                    inp = {'mode': 'glob()', 's': pre + n, 'escaped': p, 'flags': fs, 'plat': 'U'}
                    try:
                        got = G.glob(p, flags=fl, root_dir=root)
                        gotb = G.glob(os.fsencode(p), flags=fl, root_dir=os.fsencode(root))
                    except Exception as e:  # noqa: BLE001
                        res.add_violation(ID, run.viol('escape-walk', inp, [pre + n], {'exc': type(e).__name__}))
                        continue
                    ok = got == [pre + n] and gotb == [os.fsencode(pre + n)]
                    res.outcomes.add('walk-exact' if ok else 'walk-differs')
                    if not ok:
                        res.add_violation(ID, run.viol('escape-walk', inp, [pre + n], {'str': got, 'bytes': [x.decode() for x in gotb]}))
        res.samples.append({'file': '{a,b}', 'escaped': G.escape('{a,b}')})
    finally:
        shutil.rmtree(root, ignore_errors=True)


# ---------------------------------------------------------------- planning

def plan(tier, seed):
    chunks = []
    full_len, cov_len = (2, 3) if tier == 'quick' else (2, 4)
    allsets = all_subsets(LETTERS)
    NS = 64
    for sh in range(NS):
        if tier == 'quick':
            chunks.append(('strings', 1, 1, 'all', sh, NS))
            chunks.append(('strings', 2, 2, 'small', sh, NS))
        else:
            chunks.append(('strings', 1, full_len, 'all', sh, NS))
    for first in ALPHA:
        for second in ALPHA:
            chunks.append(('prefix', first + second, cov_len, 1 if tier == 'quick' else 2))
    chunks.append(('drives',))
    chunks.append(('sepmeta',))
    chunks.append(('walk',))
    return {
        'chunks': chunks,
        'coverage': {'alphabet': ALPHA, 'all_flag_subsets_up_to_len': 1 if tier == 'quick' else full_len,
                     'len2_flag_subsets': 'size <= 3 or >= 10 (quick) / all 4096 (thorough)', 'flag_letters': LETTERS,
                     'n_flag_subsets': len(allsets), 'covering_family_len': cov_len, 'covering_family_size': len(covering(LETTERS, 1 if tier == 'quick' else 2)) + 6,
                     'drive_shapes': DRIVE_SHAPES, 'exhaustive': True},
        'rule': 'every string up to length 2 over the 19-symbol alphabet x all 4096 subsets of 12 feature flags x '
                '{FORCEUNIX, FORCEWIN} x {fnmatch, glob}; longer strings x a pairwise-covering flag family; drive/UNC '
                'shapes x covering family; each escape(s) / non-magic p compared with the singleton language by product '
                'exploration (cached per distinct regex); non-trivial = distinct (executed regex, singleton) pairs explored',
        'assumptions': ['Windows drive/UNC prefixes are bounded two-sidedly (strict vs separator-run-tolerant spelling)',
                        'GLOBTILDE is inert without REALPATH'],
        'nontrivial_floor': 100,
    }


def run_chunk(chunk):
    res = run.ChunkResult()
    kind = chunk[0]
    if kind == 'drives':
        check_drives(res)
        return res
    if kind == 'walk':
        check_walk(res)
        return res
    if kind == 'sepmeta':
        # separator runs (both spellings) directly before/after metacharacters: parity of backslashes matters
        cov = covering(LETTERS, 1) + ['C', 'EBS']
        for pre in ('a', '.', 'a*', ''):
            for n in (1, 2, 3):
                for run_ in itertools.product('/\\', repeat=n):
                    for post in ('*', '?', '[', 'a', '*x', '\\*', '[a]', '(', '!', '-', '{a}', '|', '.', '~'):
                        s = pre + ''.join(run_) + post
                        for fs in cov:
                            for plat in 'UW':
                                check_string(s, fs, plat, res)
        res.samples.append({'s': 'a//*x', 'plat': 'W'})
        return res
    if kind == 'strings':
        _k, lo, hi, which, sh, ns = chunk
        sets = all_subsets(LETTERS)
        if which == 'small':
            sets = [x for x in sets if len(x) <= 3 or len(x) >= len(LETTERS) - 2]
        k = 0
        for L in range(lo, hi + 1):
            for tup in itertools.product(ALPHA, repeat=L):
                s = ''.join(tup)
                for fs in sets:
                    k += 1
                    if k % ns != sh:
                        continue
                    for plat in 'UW':
                        check_string(s, fs, plat, res)
        res.samples.append({'s': '[!', 'flags': 'ENBS', 'escaped': G.escape('[!')})
    else:
        _k, pre, L, kmax = chunk
        cov = covering(LETTERS, kmax) + ['C', 'CI', 'CEBS', 'EB', 'NS', 'ENBS']
        for tup in itertools.product(ALPHA, repeat=L - len(pre)):
            s = pre + ''.join(tup)
            for fs in cov:
                for plat in 'UW':
                    check_string(s, fs, plat, res)
        res.samples.append({'s': pre + 'a' * (L - len(pre)), 'flags': 'covering family'})
    return res


def replay(v):
    inp = v['input']
    fl = 0
    for ch in inp['flags']:
        fl |= FLAGBITS[ch]
    win = inp['plat'] == 'W'
    pf = F.FORCEWIN if win else F.FORCEUNIX
    mod = G if inp['mode'] == 'glob' else F
    s = inp['s']
    kind = v['kind']
    if kind == 'escape-walk':
        r = run.ChunkResult()
        check_walk(r)
        hit = [x for x in r.viol if x['input'] == run.jsonable(inp)]
        return {'violates': bool(hit), 'observed': hit[0]['observed'] if hit else 'ok'}
    if kind == 'escape-bytes-text':
        a, b = G.escape(s, **inp['kw']), G.escape(s.encode('latin-1'), **inp['kw'])
        return {'violates': a.encode('latin-1') != b, 'observed': b}
    if kind == 'escape-default-platform':
        e0 = G.escape(s)
        return {'violates': e0 != G.escape(s, unix=True), 'observed': {'escape': e0}}
    if kind == 'escape-bytes-differs':
        kw = {'unix': not win} if inp['mode'] == 'glob' else {}
        try:
            ms = mod.compile(mod.escape(s, **kw), flags=fl | pf)
            mb = mod.compile(mod.escape(s.encode('latin-1'), **kw), flags=fl | pf)
            a = [bool(ms.match(x)) for x in inp['names']]
            b = [bool(mb.match(x.encode('latin-1'))) for x in inp['names']]
        except Exception as ex:  # noqa: BLE001
            a, b = 'ok', type(ex).__name__
        return {'violates': a != b, 'observed': b}
    if kind.startswith('nonmagic'):
        patt = s
        if mod.is_magic(s, flags=fl | pf):
            return {'violates': False, 'observed': 'is_magic is True'}
        fl2 = (fl | pf) & ~G.MATCHBASE
    else:
        patt = G.escape(s, unix=not win) if inp['mode'] == 'glob' else F.escape(s)
        fl2 = fl | pf
    try:
        m = mod.compile(patt, flags=fl2)
    except Exception as e:  # noqa: BLE001
        return {'violates': kind.endswith('raises'), 'observed': type(e).__name__}
    if kind.endswith('raises'):
        return {'violates': False, 'observed': 'compiles'}
    match = mod.globmatch if inp['mode'] == 'glob' else mod.fnmatch
    got = match(inp['name'], patt, flags=fl2)
    return {'violates': got != v['expected']['match'], 'observed': {'match': got, 'pattern': patt}}
