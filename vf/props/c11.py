"""C11 - the pattern limit bounds expansion work in every API, default 1000.

Exhaustive enumeration of (inclusion list, exclusion list, limit, entry point, way of giving exclusions) over a
catalogue of patterns with known expansion counts arranged to straddle each limit; oracle = a reference budget
machine: unique count > L must raise PatternLimitException, total count <= L must not, limit=0 never raises, an
omitted limit behaves as 1000; the work is *counted* by wrapping bracex.iexpand (items pulled, and the limit
argument handed to bracex, which must never be 0 = unlimited when a limit is in force), with a pull horizon.
"""
import itertools
import os
import shutil
import tempfile

import bracex

from .. import bind, run
from wcmatch import fnmatch as F, glob as G, wcmatch as WM, pathlib as WP, _wcparse

ID = 'C11'
LEVEL = 'exploration'
REPLAY_DEADLINE = 60
PLE = _wcparse.PatternLimitException
DEFAULT = 'default'
HUGE = '{1..100000000}'


class PullHorizon(BaseException):
    pass


class BudgetViolation(BaseException):
    """bracex was about to be called with an unlimited (or larger than L) budget although a limit is in force."""


class Monitor:
    def __init__(self, horizon, L=0):
        self.horizon = horizon
        self.L = L
        self.pulled = 0
        self.limits = []
        self._orig = None

    def __enter__(self):
        self._orig = bracex.iexpand
        mon = self

        def iexpand(string, keep_escapes=False, limit=1000):
            mon.limits.append(limit)
            if mon.L and not (0 < limit <= mon.L):
                # do not let bracex materialise an unbounded expansion: this already is the violation
                raise BudgetViolation(limit)
            for x in mon._orig(string, keep_escapes=keep_escapes, limit=limit):
                mon.pulled += 1
                if mon.pulled > mon.horizon:
                    raise PullHorizon(mon.pulled)
                yield x
        bracex.iexpand = iexpand
        return self

    def __exit__(self, *exc):
        bracex.iexpand = self._orig
        return False


def rng(n):
    return ent('{1..%d}' % n)


def ent(t):
    """(text, total expansions, unique expansions) - counted with the catalogue's own expander."""
    if t == HUGE:
        return (t, 10 ** 8, 10 ** 8)
    p = pieces_of(t)
    return (t, len(p), len(set(p)))


# all under BRACE|SPLIT (brace expansion first, then splitting)
def catalogue(L):
    out = [ent(t) for t in ('a', '{a,b}', 'x|y|z', '{c,c}', '{d,{e,f}}', '{g,h}{i,j}', '{k,l}|m')]
    for n in sorted({max(L - 1, 1), L, L + 1}):
        if n > 1:
            out.append(rng(n))
    if 2 <= L <= 100:
        out.append(ent('{1..%d}|a' % L))     # duplicates after the split: total 2L, unique L+1
    return out


def pieces_of(text):
    """Own expansion of the catalogue shapes (brace first, then split) - used for exact unique counts of lists."""
    if HUGE in text:
        return ['<huge-%d>' % i for i in range(3)]     # never materialised; counts are overridden by the caller
    out = []
    for b in bracex.expand(text, keep_escapes=True, limit=0):
        out.extend(b.split('|'))
    return out


ENTRY = {}


def entry(name):
    def deco(fn):
        ENTRY[name] = fn
        return fn
    return deco


def _kw(limit, ex):
    kw = {}
    if limit != DEFAULT:
        kw['limit'] = limit
    if ex is not None:
        kw['exclude'] = ex
    return kw


FL_F = F.BRACE | F.SPLIT
FL_G = G.BRACE | G.SPLIT


@entry('fnmatch')
def _e1(inc, ex, neg, limit, root):
    return F.fnmatch('x', inc, flags=FL_F | neg, **_kw(limit, ex))


@entry('filter')
def _e2(inc, ex, neg, limit, root):
    return F.filter(['x'], inc, flags=FL_F | neg, **_kw(limit, ex))


@entry('fn.translate')
def _e3(inc, ex, neg, limit, root):
    return F.translate(inc, flags=FL_F | neg, **_kw(limit, ex))


@entry('fn.compile')
def _e4(inc, ex, neg, limit, root):
    return F.compile(inc, flags=FL_F | neg, **_kw(limit, ex))


@entry('globmatch')
def _e5(inc, ex, neg, limit, root):
    return G.globmatch('x', inc, flags=FL_G | neg, **_kw(limit, ex))


@entry('globfilter')
def _e6(inc, ex, neg, limit, root):
    return G.globfilter(['x'], inc, flags=FL_G | neg, **_kw(limit, ex))


@entry('glob.translate')
def _e7(inc, ex, neg, limit, root):
    return G.translate(inc, flags=FL_G | neg, **_kw(limit, ex))


@entry('glob.compile')
def _e8(inc, ex, neg, limit, root):
    return G.compile(inc, flags=FL_G | neg, **_kw(limit, ex))


@entry('glob')
def _e9(inc, ex, neg, limit, root):
    return G.glob(inc, flags=FL_G | neg, root_dir=root, **_kw(limit, ex))


@entry('iglob')
def _e10(inc, ex, neg, limit, root):
    return list(G.iglob(inc, flags=FL_G | neg, root_dir=root, **_kw(limit, ex)))


@entry('PurePath.match')
def _e11(inc, ex, neg, limit, root):
    return WP.PurePosixPath('x').match(inc, flags=FL_G | neg, **_kw(limit, ex))


@entry('PurePath.globmatch')
def _e12(inc, ex, neg, limit, root):
    return WP.PurePosixPath('x').globmatch(inc, flags=FL_G | neg, **_kw(limit, ex))


@entry('PurePath.full_match')
def _e13(inc, ex, neg, limit, root):
    return WP.PurePosixPath('x').full_match(inc, flags=FL_G | neg, **_kw(limit, ex))


@entry('Path.glob')
def _e14(inc, ex, neg, limit, root):
    return list(WP.Path(root).glob(inc, flags=FL_G | neg, **_kw(limit, ex)))


@entry('Path.rglob')
def _e15(inc, ex, neg, limit, root):
    return list(WP.Path(root).rglob(inc, flags=FL_G | neg, **_kw(limit, ex)))


WC_HOWS = ['file_pattern', 'file_pattern+FILEPATHNAME', 'exclude_pattern', 'exclude_pattern+DIRPATHNAME']


def wcmatch_call(pattern, limit, root, how='file_pattern'):
    kw = {} if limit == DEFAULT else {'limit': limit}
    fl = WM.BRACE | (WM.FILEPATHNAME if 'FILEPATHNAME' in how else 0) | (WM.DIRPATHNAME if 'DIRPATHNAME' in how else 0)
    if how.startswith('exclude'):
        return WM.WcMatch(root, '*', pattern, flags=fl | WM.RECURSIVE, **kw).match()
    return WM.WcMatch(root, pattern, flags=fl, **kw).match()


def evaluate(res, ename, inc, exs, how, limit, root):
    """One call. inc/exs: lists of catalogue entries."""
    L = 1000 if limit == DEFAULT else limit
    inc_t = [t for t, _, _ in inc]
    ex_t = [t for t, _, _ in exs]
    T = sum(c for _, c, _ in inc) + sum(c for _, c, _ in exs)
    if how == 'inline':
        allp = inc_t + ['!' + t for t in ex_t]
        U = len(set(p for t in inc_t for p in pieces_of(t)) | set('!' + p for t in ex_t for p in pieces_of('!' + t)))
        # '!' + '{a,b}' expands to !a, !b ; '!x|y' would split into !x, y - the catalogue's split items are kept out of
        # inline exclusions by the caller
        args = (allp, None, G.NEGATE)
    else:
        U = len(set(p for t in inc_t for p in pieces_of(t))) + len(set(p for t in ex_t for p in pieces_of(t)))
        args = (inc_t, ex_t if ex_t else None, 0)
    huge = any(t == HUGE for t in inc_t + ex_t)
    if huge:
        T = U = 10 ** 8
    inp = {'entry': ename, 'inclusions': inc_t, 'exclusions': ex_t, 'how': how, 'limit': limit}
    res.n['evaluations'] += 1
    horizon = (L if L else 2000) + 5000
    with Monitor(horizon, L) as mon:
        try:
            ENTRY[ename](args[0], args[1], args[2], limit, root)
            outcome = 'ok'
        except PLE:
            outcome = 'raised'
        except BudgetViolation:
            outcome = 'budget'
        except PullHorizon:
            outcome = 'horizon'
        except Exception as e:  # noqa: BLE001
            outcome = 'exc:' + type(e).__name__
    judge(res, inp, outcome, mon, L, T, U, len(inc) + len(exs))


def judge(res, inp, outcome, mon, L, T, U, npat):
    if L and T <= L < U:
        pass
    if L and (U > L or T <= L):
        res.n['distinct_nontrivial'] += 1
    res.outcomes.add(outcome + ('/over' if L and U > L else '/under' if (not L or T <= L) else '/between'))
    if outcome == 'budget':
        res.add_violation(ID, run.viol('bracex-budget', inp, '0 < limit handed to bracex <= L',
                                       {'limits_given_to_bracex': mon.limits[:8]}))
        return
    if outcome == 'horizon':
        res.add_violation(ID, run.viol('unbounded-expansion', inp, 'at most about L+1 expansions generated',
                                       {'pulled_before_horizon': mon.pulled, 'limits_given_to_bracex': mon.limits[:6]}))
        return
    if outcome.startswith('exc:'):
        res.add_violation(ID, run.viol('other-exception', inp, 'PatternLimitException or success', outcome))
        return
    if L == 0:
        if outcome != 'ok':
            res.add_violation(ID, run.viol('limit0-raises', inp, 'no exception', outcome))
        return
    if U > L and outcome != 'raised':
        res.add_violation(ID, run.viol('over-limit-not-raised', dict(inp, unique=U, total=T), 'PatternLimitException', outcome))
        return
    if T <= L and outcome != 'ok':
        res.add_violation(ID, run.viol('under-limit-raised', dict(inp, unique=U, total=T), 'no exception', outcome))
        return
    if mon.pulled > L + 1 + npat:
        res.add_violation(ID, run.viol('too-many-expansions', dict(inp, unique=U, total=T), {'pulled_at_most': L + 1 + npat},
                                       {'pulled': mon.pulled}))
        return
    bad = [x for x in mon.limits if not (0 < x <= L)]
    if bad:
        res.add_violation(ID, run.viol('bracex-budget', dict(inp, unique=U, total=T), '0 < limit handed to bracex <= L',
                                       {'limits_given_to_bracex': mon.limits[:8]}))


LIMITS_Q = [1, 2, 3, 5, 32, 33]
LIMITS_T = [1, 2, 3, 5, 32, 33, 1000, 1001]
SPLIT_OK_INLINE = lambda t: '|' not in t   # noqa: E731


def run_limit(res, limit, enames, root, max_inc, max_exc):
    L = 1000 if limit == DEFAULT else limit
    cat = catalogue(L if L else 5)
    small = [c for c in cat if c[1] <= 4]
    boundary = [c for c in cat if c[1] > 4] or small[-2:]
    pool = small[:4] + boundary
    epool = pool[:5] + boundary[:1]
    if L >= 100:
        # thousands of patterns per call: keep to the boundary cases
        pool = [small[0], small[3]] + boundary
        epool = [small[0], boundary[0]]
        max_inc = min(max_inc, 2)
        max_exc = min(max_exc, 1)
    huge = (HUGE, 10 ** 8, 10 ** 8)
    for ename in enames:
        for ni in range(1, max_inc + 1):
            for inc in itertools.product(pool, repeat=ni):
                if sum(c for _, c, _ in inc) > 3 * L + 8 and L:
                    continue
                if L >= 100 and ni == 2 and not (inc[0][1] <= 4 or inc[1][1] <= 4):
                    continue
                for ne in range(0, max_exc + 1):
                    for exs in itertools.product(epool, repeat=ne):
                        for how in (('exclude=', 'inline') if exs else ('exclude=',)):
                            if how == 'inline' and not all(SPLIT_OK_INLINE(t) for t, _, _ in exs):
                                continue
                            evaluate(res, ename, list(inc), list(exs), how, limit, root)
        if L:
            # the huge range must fail fast in every position
            for inc, exs in (([huge], []), ([small[0], huge], []), ([huge, small[0]], []), ([small[0]], [huge]),
                             ([small[1], small[0]], [small[0], huge])):
                evaluate(res, ename, inc, exs, 'exclude=', limit, root)
            if L >= 3:
                # exclusions that use up the whole budget
                k = [rng(L)] if L > 1 else [small[0]]
                evaluate(res, ename, [small[0]], k, 'exclude=', limit, root)
                evaluate(res, ename, [huge], k, 'exclude=', limit, root)
                evaluate(res, ename, [small[0], small[1]], [rng(max(L - 1, 2))], 'exclude=', limit, root)


def run_wcmatch(res, limit, root):
    L = 1000 if limit == DEFAULT else limit
    # limit=0 switches the check off: also beyond the default of 1000
    for text, T, U in catalogue(L if L else 5) + ([(HUGE, 10 ** 8, 10 ** 8)] if L else [('{1..1500}', 1500, 1500)]):
        for how in WC_HOWS:
            inp = {'entry': 'WcMatch', 'inclusions': [text], 'exclusions': [], 'how': how, 'limit': limit}
            res.n['evaluations'] += 1
            with Monitor((L if L else 2000) + 5000, L) as mon:
                try:
                    wcmatch_call(text, limit, root, how)
                    outcome = 'ok'
                except PLE:
                    outcome = 'raised'
                except BudgetViolation:
                    outcome = 'budget'
                except PullHorizon:
                    outcome = 'horizon'
                except Exception as e:  # noqa: BLE001
                    outcome = 'exc:' + type(e).__name__
            judge(res, inp, outcome, mon, L, T, U, 1)


def plan(tier, seed):
    chunks = []
    limits = LIMITS_Q if tier == 'quick' else LIMITS_T
    names = sorted(ENTRY)
    for lim in limits + [0, DEFAULT]:
        for e in names:
            if lim in (DEFAULT, 1000, 1001) and e not in ('fnmatch', 'glob.compile', 'glob', 'Path.glob', 'fn.translate', 'PurePath.match'):
                mi, me = 1, 1
            else:
                mi, me = (2, 1) if tier == 'quick' else (3, 2)
            if lim in (DEFAULT, 1000, 1001):
                mi = min(mi, 2)
                me = min(me, 1)
            chunks.append(('api', lim, e, mi, me))
        chunks.append(('wcmatch', lim))
    return {
        'chunks': chunks,
        'coverage': {'limits': [str(x) for x in limits + [0, DEFAULT]], 'entry_points': names + ['WcMatch'],
                     'catalogue_example': [c[0] for c in catalogue(5)], 'exhaustive': True,
                     'ways_of_excluding': ['exclude=', 'inline NEGATE']},
        'rule': 'for every limit and entry point: every list of 1..n inclusion and 0..m exclusion patterns from a catalogue '
                'whose expansion counts straddle the limit (L-1, L, L+1, duplicates, nested sets, splits, the 10^8 range in '
                'every position, exclusions that use up the budget); non-trivial = calls whose counts decide the outcome '
                '(unique > L or total <= L)',
        'assumptions': ['expansion work is measured as items pulled from bracex.iexpand and as the limit argument bracex '
                        'receives (0 would mean unlimited); bracex itself is trusted to honour its limit'],
        'nontrivial_floor': 500,
        'min_outcomes': 3,
    }


def run_chunk(chunk):
    res = run.ChunkResult()
    root = tempfile.mkdtemp(prefix='vfc11_', dir=bind.scratch_base())
    try:
        open(os.path.join(root, 'x'), 'w').close()
        if chunk[0] == 'api':
            _k, lim, e, mi, me = chunk
            run_limit(res, lim, [e], root, mi, me)
            res.samples.append({'entry': e, 'limit': lim, 'inclusions': ['{1..%s}' % (lim if isinstance(lim, int) and lim else 5)], 'exclusions': ['a']})
        else:
            run_wcmatch(res, chunk[1], root)
            res.samples.append({'entry': 'WcMatch', 'limit': chunk[1]})
    finally:
        shutil.rmtree(root, ignore_errors=True)
    return res


def replay(v):
    inp = v['input']
    root = tempfile.mkdtemp(prefix='vfc11_', dir=bind.scratch_base())
    try:
        open(os.path.join(root, 'x'), 'w').close()
        r = run.ChunkResult()
        limit = inp['limit']
        L = 1000 if limit == DEFAULT else limit

        if inp['entry'] == 'WcMatch':
            t = inp['inclusions'][0]
            T, U = ent(t)[1:]
            with Monitor((L if L else 2000) + 5000, L) as mon:
                try:
                    wcmatch_call(t, limit, root, inp['how'])
                    outcome = 'ok'
                except PLE:
                    outcome = 'raised'
                except BudgetViolation:
                    outcome = 'budget'
                except PullHorizon:
                    outcome = 'horizon'
                except Exception as e:  # noqa: BLE001
                    outcome = 'exc:' + type(e).__name__
            judge(r, inp, outcome, mon, L, T, U, 1)
        else:
            evaluate(r, inp['entry'], [ent(t) for t in inp['inclusions']], [ent(t) for t in inp['exclusions']], inp['how'], limit, root)
        hit = [x for x in r.viol + list(r.known_ex.values()) if x['kind'] == v['kind']]
        return {'violates': bool(hit), 'observed': hit[0]['observed'] if hit else 'ok'}
    finally:
        shutil.rmtree(root, ignore_errors=True)
