"""C19 - results never depend on call history, caching, sharing or threads.

Engine SEQ:
  sequences  every sequence up to a depth over a pool of call tuples built to collide in the cache key space (same text
             under different flags / as bytes / translate vs compile / MATCHBASE vs not / REALPATH on two trees that
             differ only in a symlink) plus the macro operation FLOOD (more than a cache-full of distinct patterns);
             every call's value must equal its value in a clean state (caches cleared), and - thorough tier - in a
             fresh interpreter
  threads    every ordered pair of pool tuples on two real threads under a baton scheduler (sys.settrace events inside
             wcmatch/*.py): the default schedule plus every schedule with one preemption (line granularity for a
             sub-pool, call granularity for all pairs); each thread's value must equal its sequential value
  objects    all pairs of matcher configurations: equal configurations give == and hash-equal objects in different
             histories, == implies the same behaviour and the same language (product automaton), pickle / copy /
             deepcopy round trips, immutability, reuse for many calls
"""
import copy
import itertools
import json
import os
import pickle
import shutil
import subprocess
import sys
import tempfile
import threading

from .. import bind, run, langcmp, impl
from wcmatch import fnmatch as F, glob as G, _wcparse, pathlib as WP, wcmatch as WM

ID = 'C19'
LEVEL = 'exploration'
REPLAY_DEADLINE = 300
MAXTASKS = 1
HISTORY_REPLAY = True   # a history-dependent case that the recorded sequence alone does not reproduce is re-run with its whole chunk
WCDIR = os.path.dirname(os.path.abspath(_wcparse.__file__))

# ---------------------------------------------------------------- fixed trees

TREES = {
    't1': {'dirs': ['a', 'a/b', '.h'], 'files': ['a/b/f', 'x.txt', '.h/y.txt', 'A.txt'], 'links': {}},
    't2': {'dirs': ['a', 'r'], 'files': ['r/f', 'x.txt'], 'links': {'a/b': '../r'}},
}
_roots = {}


def roots():
    if not _roots:
        base = tempfile.mkdtemp(prefix='vfc19_', dir=bind.scratch_base())
        _roots['__base__'] = base
        for name, t in TREES.items():
            r = os.path.join(base, name)
            os.mkdir(r)
            for d in t['dirs']:
                os.makedirs(os.path.join(r, d), exist_ok=True)
            for f in t['files']:
                open(os.path.join(r, f), 'w').close()
            for l, tgt in t['links'].items():
                os.symlink(tgt, os.path.join(r, l))
            _roots[name] = r
    return _roots


def cleanup():
    b = _roots.pop('__base__', None)
    _roots.clear()
    if b:
        shutil.rmtree(b, ignore_errors=True)


# ---------------------------------------------------------------- pool of call tuples

def _fl(mod, s):
    f = 0
    for name in s.split('|'):
        if name:
            f |= getattr(mod, name)
    return f


POOL = [
    ('fnmatch', 'a*', '', 'ab'),
    ('fnmatch', 'a*', 'IGNORECASE', 'AB'),
    ('fnmatch', 'a*', 'CASE', 'AB'),
    ('fnmatch', b'a*', '', b'ab'),
    ('fnmatch', '*', '', '.a'),
    ('fnmatch', '*', 'DOTMATCH', '.a'),
    ('fnmatch', '!(a)', 'EXTMATCH', 'a'),
    ('fnmatch', '!(a)', '', '!(a)'),
    ('fnmatch', ['*', '!a*'], 'NEGATE', 'ab'),
    ('fnmatch', ['*', '!a*'], '', '!a*'),
    ('fn.translate', 'a*', '', None),
    ('fn.translate', 'a*', 'IGNORECASE', None),
    ('fn.translate', '!(a)', 'EXTMATCH', None),
    ('fn.filter', 'a*|b*', 'SPLIT', ['ab', 'ba', 'c']),
    ('fn.filter', 'a*|b*', '', ['ab', 'a*|b*']),
    ('globmatch', 'a*', '', 'x/ab'),
    ('globmatch', 'a*', 'MATCHBASE', 'x/ab'),
    ('globmatch', '**/a', 'GLOBSTAR', 'x/y/a'),
    ('globmatch', '**/a', '', 'x/y/a'),
    ('globmatch', b'**/a', 'GLOBSTAR', b'x/y/a'),
    ('glob.translate', '**/a', 'GLOBSTAR', None),
    ('glob.translate', '**/a', 'GLOBSTAR|DOTGLOB', None),
    ('globmatch.real', '**/f', 'GLOBSTAR|REALPATH', ('t1', 'a/b/f')),
    ('globmatch.real', '**/f', 'GLOBSTAR|REALPATH', ('t2', 'a/b/f')),
    ('globmatch.real', '**/f', 'GLOBSTAR|REALPATH|FOLLOW', ('t2', 'a/b/f')),
    ('glob', '**/*.txt', 'GLOBSTAR', 't1'),
    ('glob', '**/*.txt', 'GLOBSTAR|DOTGLOB', 't1'),
    ('glob', ['*.txt', 'x.*'], 'IGNORECASE', 't1'),
    ('pathlib.match', '*.txt', '', 'd/x.txt'),
    ('glob.tilde', '~/x.*', 'GLOBTILDE|REALPATH', 'absent'),
    ('glob.tilde', '~/x.*', 'GLOBTILDE|REALPATH', 'present'),
    ('glob.tilde', b'~/x.*', 'GLOBTILDE|REALPATH', 'present'),
    ('wcmatch', '*.txt', 'RECURSIVE', 't1'),
    # a concrete Path whose target is a file at one call and a directory at another (the trailing-slash rule reads the
    # file system at the moment of the call)
    ('path.fs', '**/entry/', 'GLOBSTAR', 'file'),
    ('path.fs', '**/entry/', 'GLOBSTAR', 'dir'),
    ('FLOOD', None, '', None),
]


# calls that take the root as a directory descriptor: only used by the residual-state check (not in the sequence pool)
DIRFD_TUPLES = [('iglob.abandon', '.*', 'DOTGLOB|SCANDOTDIR', 1), ('iglob.abandon', '.*', 'DOTGLOB|SCANDOTDIR', 2),
                ('iglob.abandon', '**', 'GLOBSTAR|DOTGLOB|SCANDOTDIR', 1), ('iglob.abandon', '**', 'GLOBSTAR', 3),
                ('iglob.abandon', '*/*', '', 1),
                ('glob.dirfd', '**/*.txt', 'GLOBSTAR', 't1'), ('glob.dirfd', '*/*', '', 't2'), ('glob.dirfd', '**', 'GLOBSTAR|FOLLOW', 't1'),
                ('globmatch.dirfd', '**/f', 'GLOBSTAR|REALPATH', ('t2', 'a/b/f')), ('glob.dirfd', b'**/*.txt', 'GLOBSTAR', 't1')]


def _nfds():
    return len(os.listdir('/proc/self/fd'))


def check_residual_state(res):
    """Inductive invariant behind "the same after any sequence of other calls": a call leaves no operating-system
    state behind - the number of open descriptors after every call equals the number before it (so no history of
    any length can exhaust the table), and repeating the call gives the same value."""
    for t in [x for x in POOL if x[0] != 'FLOOD'] + DIRFD_TUPLES:
        execute(t)     # first use may legitimately open long-lived things (module imports)
        n0 = _nfds()
        vals = []
        for rep in range(3):
            vals.append(run.jsonable(execute(t)))
            n1 = _nfds()
            res.n['evaluations'] += 1
            res.n['distinct_nontrivial'] += 1
            if n1 != n0:
                res.outcomes.add('descriptor-leak')
                res.add_violation(ID, run.viol('residual-state', {'call': run.jsonable(list(t)), 'repetition': rep + 1},
                                               {'descriptors_left_open': 0}, {'descriptors_left_open': n1 - n0}))
                break
        else:
            res.outcomes.add('no-residue')
            if vals[0] != vals[1] or vals[1] != vals[2]:
                res.add_violation(ID, run.viol('history-dependence', {'sequence': [run.jsonable(list(t))] * 3}, vals[0], vals[2]))


def execute(t):
    """Run one call tuple; the value is JSON-able and deterministic."""
    kind, patt, fs, arg = t
    try:
        if kind in ('glob.dirfd', 'globmatch.dirfd'):
            tree, name = (arg, None) if kind == 'glob.dirfd' else arg
            r = roots()[tree]
            fd = os.open(r, os.O_RDONLY | os.O_DIRECTORY)
            try:
                if kind == 'glob.dirfd':
                    return run.jsonable(sorted(G.glob(patt, flags=_fl(G, fs), dir_fd=fd)))
                return G.globmatch(name, patt, flags=_fl(G, fs), dir_fd=fd)
            finally:
                os.close(fd)
        if kind == 'fnmatch':
            return F.fnmatch(arg, patt, flags=_fl(F, fs))
        if kind == 'fn.translate':
            return run.jsonable(F.translate(patt, flags=_fl(F, fs)))
        if kind == 'fn.filter':
            return F.filter(arg, patt, flags=_fl(F, fs))
        if kind == 'globmatch':
            return G.globmatch(arg, patt, flags=_fl(G, fs))
        if kind == 'glob.translate':
            return run.jsonable(G.translate(patt, flags=_fl(G, fs)))
        if kind == 'globmatch.real':
            tree, name = arg
            cwd = os.getcwd()
            os.chdir(roots()[tree])
            try:
                return G.globmatch(name, patt, flags=_fl(G, fs))
            finally:
                os.chdir(cwd)
        if kind == 'glob':
            return sorted(G.glob(patt, flags=_fl(G, fs), root_dir=roots()[arg]))
        if kind == 'glob.tilde':
            # the home directory (HOME points into the scratch area) exists or not at the moment of the call
            home = os.path.join(roots()['__base__'], 'home')
            old = os.environ.get('HOME')
            os.environ['HOME'] = home
            try:
                if arg == 'present':
                    os.makedirs(home, exist_ok=True)
                    open(os.path.join(home, 'x.txt'), 'w').close()
                else:
                    shutil.rmtree(home, ignore_errors=True)
                got = G.glob(patt, flags=_fl(G, fs))
                ok = G.globmatch(os.path.join(home, 'x.txt') if isinstance(patt, str) else os.fsencode(os.path.join(home, 'x.txt')),
                                 patt, flags=_fl(G, fs))
                rel = [os.path.relpath(x, os.fsencode(roots()['__base__']) if isinstance(x, bytes) else roots()['__base__']) for x in got]
                return run.jsonable({'glob': sorted(rel), 'globmatch_home_file': ok})
            finally:
                if old is None:
                    os.environ.pop('HOME', None)
                else:
                    os.environ['HOME'] = old
        if kind == 'path.fs':
            ent = os.path.join(roots()['__base__'], 'entry')
            if arg == 'dir':
                if not os.path.isdir(ent):
                    if os.path.lexists(ent):
                        os.unlink(ent)
                    os.mkdir(ent)
            else:
                if os.path.isdir(ent):
                    os.rmdir(ent)
                open(ent, 'w').close()
            pth = WP.Path(ent)
            return {'globmatch': pth.globmatch(patt, flags=_fl(WP, fs)), 'full_match': pth.full_match(patt, flags=_fl(WP, fs)),
                    'match': pth.match('entry/', flags=_fl(WP, fs))}
        if kind == 'iglob.abandon':
            # take `arg` results of a dir_fd walk and abandon the iterator
            r = roots()['t1']
            fd = os.open(r, os.O_RDONLY | os.O_DIRECTORY)
            try:
                it = G.iglob(patt, flags=_fl(G, fs), dir_fd=fd)
                out = []
                for _ in range(arg):
                    try:
                        out.append(next(it))
                    except StopIteration:
                        break
                it.close()
                return len(out)
            finally:
                os.close(fd)
        if kind == 'pathlib.match':
            return WP.PurePosixPath(arg).match(patt, flags=_fl(WP, fs) if fs else 0)
        if kind == 'wcmatch':
            r = roots()[arg]
            return sorted(os.path.relpath(x, r) for x in WM.WcMatch(r, patt, flags=_fl(WM, fs)).match())
        if kind == 'FLOOD':
            n = 0
            for i in range(260):
                n += F.fnmatch('filler%d' % i, 'filler%d*' % i)
            return n
    except Exception as e:  # noqa: BLE001
        return {'exception': type(e).__name__, 'msg': str(e)[:60]}
    raise ValueError(kind)


def tid(t):
    return json.dumps(run.jsonable(list(t)), sort_keys=True)


_FRESH_CODE = ('import sys, json; sys.path.insert(0, %r); from vf.props import c19; from vf import run; '
               't = c19.POOL[int(sys.argv[1])]; print("VALUE", json.dumps(run.jsonable(c19.execute(t)))); c19.cleanup()')
_want_cache = {}


def fresh_value(i):
    """The value of pool call i in a fresh interpreter: the only state that is certainly free of history."""
    r = subprocess.run([sys.executable, '-c', _FRESH_CODE % bind.VERIF, str(i)], capture_output=True, text=True, timeout=300,
                       env=dict(os.environ, VERIF_REPO=bind.REPO))
    line = [ln for ln in r.stdout.splitlines() if ln.startswith('VALUE ')]
    if not line:
        raise run.HarnessError('fresh interpreter run failed: %s' % r.stderr[-300:])
    return json.loads(line[-1][6:])


def clean_values(pool=None, path=None):
    """{tuple id: value in a fresh interpreter}.  Computed once per check run (plan()) and handed to the chunks."""
    if path and os.path.exists(path):
        with open(path) as f:
            return json.load(f)
    if 'v' not in _want_cache:
        from concurrent.futures import ThreadPoolExecutor
        with ThreadPoolExecutor(16) as ex:
            vals = list(ex.map(fresh_value, range(len(POOL))))
        _want_cache['v'] = {tid(t): v for t, v in zip(POOL, vals)}
    return _want_cache['v']


# ---------------------------------------------------------------- sequences

def check_sequences(first, depth, res, want):
    pool = POOL
    for L in range(1, depth + 1):
        for rest in itertools.product(range(len(pool)), repeat=L - 1):
            seq = (first,) + rest
            if L > 1 and sum(1 for i in seq if pool[i][0] == 'FLOOD') > 1:
                continue
            bind.clear_caches()
            res.n['evaluations'] += 1
            res.n['sequences'] += 1
            for pos, i in enumerate(seq):
                got = run.jsonable(execute(pool[i]))
                if got != want[tid(pool[i])]:
                    res.outcomes.add('history-dependent')
                    res.add_violation(ID, run.viol('history-dependence', {'sequence': [list(pool[j]) for j in seq[:pos + 1]]},
                                                   want[tid(pool[i])], got))
                    break
            else:
                res.outcomes.add('seq-ok')
                if L > 1:
                    res.n['distinct_nontrivial'] += 1
    res.outcomes.add('cache:%s' % (_wcparse._compile.cache_info().currsize > 0))


def fresh_interpreter_values(res, want):
    """Fresh-interpreter values are deterministic (two independent fresh runs agree) and equal the in-process value
    computed with all caches cleared."""
    for i, t in enumerate(POOL):
        res.n['evaluations'] += 1
        again = fresh_value(i)
        bind.clear_caches()
        here = run.jsonable(execute(t))
        if again != want[tid(t)] or here != want[tid(t)]:
            res.add_violation(ID, run.viol('fresh-interpreter-differs', {'call': run.jsonable(list(t))}, want[tid(t)],
                                           {'second_fresh_run': again, 'in_process_cleared': here}))
        else:
            res.n['distinct_nontrivial'] += 1
            res.outcomes.add('fresh-equal')


# ---------------------------------------------------------------- threads under a baton scheduler

class Baton:
    """Exactly one of two threads runs at a time.  Thread `first` starts; at its `at`-th scheduling point it is preempted
    and the other thread runs to completion (one preemption); at == None is the default schedule (no preemption)."""

    def __init__(self, first, at, gran):
        self.first = first
        self.at = at
        self.gran = gran
        self.sem = [threading.Semaphore(0), threading.Semaphore(0)]
        self.count = [0, 0]
        self.done = [False, False]
        self.preempted = False

    def point(self, me):
        self.count[me] += 1
        if me == self.first and self.at is not None and self.count[me] == self.at and not self.preempted:
            self.preempted = True
            other = 1 - me
            if not self.done[other]:
                self.sem[other].release()
                self.sem[me].acquire()

    def tracer(self, me):
        ev = 'line' if self.gran == 'line' else 'call'

        def tr(frame, event, arg):
            if not frame.f_code.co_filename.startswith(WCDIR):
                return None
            if event == ev:
                self.point(me)
            return tr
        return tr

    def run(self, calls):
        vals = [None, None]

        def body(me):
            self.sem[me].acquire()
            sys.settrace(self.tracer(me))
            try:
                vals[me] = run.jsonable(execute(calls[me]))
            finally:
                sys.settrace(None)
                self.done[me] = True
                other = 1 - me
                if not self.done[other]:
                    self.sem[other].release()
                elif self.preempted and me != self.first:
                    pass
            # wake a preempted first thread
            if me != self.first and self.preempted:
                self.sem[self.first].release()

        ts = [threading.Thread(target=body, args=(i,)) for i in (0, 1)]
        for t in ts:
            t.start()
        self.sem[self.first].release()
        for t in ts:
            t.join(120)
        if any(t.is_alive() for t in ts):
            return None
        return vals


def run_schedule(calls, first, at, gran):
    bind.clear_caches()
    b = Baton(first, at, gran)
    vals = b.run(calls)
    return vals, tuple(b.count)


def check_threads(i, gran, res, sub=None, want=None):
    pool = [t for t in POOL if t[0] != 'FLOOD']
    a = pool[i]
    for j, bcall in enumerate(pool):
        if sub is not None and j not in sub:
            continue
        calls = (a, bcall)
        if a[0] in ('glob.tilde', 'path.fs') and bcall[0] == a[0] and a[3] != bcall[3]:
            # the two calls need different environments (HOME directory present / absent) and the environment is
            # process-wide: running them concurrently is a conflict the harness would create, not the library
            res.notes['thread_pair_skipped_conflicting_environment'] += 1
            continue
        # default schedules and every single preemption of either thread
        vals, counts = run_schedule(calls, 0, None, gran)
        if vals is None:
            res.add_violation(ID, run.viol('deadlock', {'calls': [list(a), list(bcall)], 'schedule': 'default'}, 'finishes', 'stuck'))
            continue
        scheds = [(0, None)] + [(0, k) for k in range(1, counts[0] + 1)] + [(1, k) for k in range(1, counts[1] + 1)]
        for first, at in scheds:
            res.n['evaluations'] += 1
            res.n['schedules'] += 1
            vals, cnt = run_schedule(calls, first, at, gran)
            inp = {'calls': [list(a), list(bcall)], 'first': first, 'preempt_at': at, 'granularity': gran}
            if vals is None:
                res.add_violation(ID, run.viol('deadlock', inp, 'finishes', 'stuck'))
                continue
            exp = [want[tid(a)], want[tid(bcall)]]
            if vals != exp:
                res.outcomes.add('schedule-dependent')
                res.add_violation(ID, run.viol('schedule-dependence', inp, exp, vals))
            else:
                res.outcomes.add('sched-ok')
                if at is not None:
                    res.n['distinct_nontrivial'] += 1


# ---------------------------------------------------------------- matcher objects

CONFIGS = []
for _mode in ('fn', 'glob'):
    for _p in ('a*', 'A*', ['a*', 'b'], ['b', 'a*'], '!(a)', '*.txt', '/zz/*.txt', '**/a', ['*', '!a']):
        for _fs in ('', 'IGNORECASE', 'EXTMATCH', 'DOTMATCH', 'NEGATE', 'REALPATH', 'GLOBSTAR', 'GLOBSTAR|REALPATH|FOLLOW',
                    'GLOBSTAR|REALPATH'):
            if _mode == 'fn' and ('REALPATH' in _fs or 'GLOBSTAR' in _fs):
                continue
            CONFIGS.append((_mode, _p, _fs))
PROBES = ['a', 'ab', 'A', 'b', '.a', 'x.txt', '/zz/x.txt', 'x/a', '!a', 'a/', 'x/y/a']


def build(cfg, exclude=None):
    mode, p, fs = cfg
    mod = G if mode == 'glob' else F
    return mod.compile(p, flags=_fl(mod, fs), exclude=exclude)


def behaviour(m):
    out = []
    for n in PROBES:
        try:
            out.append(bool(m.match(n)))
        except Exception as e:  # noqa: BLE001
            out.append(type(e).__name__)
    return out


def check_objects(sh, ns, res):
    objs = []
    for c in CONFIGS:
        bind.clear_caches()
        a = build(c)
        execute(POOL[-1]) if len(objs) % 7 == 0 else None      # a different history before the twin is built
        b = build(c)
        objs.append((c, a, b))
        res.n['evaluations'] += 1
        inp = {'config': list(c)}
        if not (a == b and hash(a) == hash(b) and not (a != b)):
            res.add_violation(ID, run.viol('twin-not-equal', inp, 'equal and hash-equal', {'eq': a == b, 'hash_eq': hash(a) == hash(b)}))
        for how, clone in (('pickle', lambda x: pickle.loads(pickle.dumps(x))), ('copy', copy.copy), ('deepcopy', copy.deepcopy)):
            try:
                c2 = clone(a)
            except Exception as e:  # noqa: BLE001
                res.add_violation(ID, run.viol('clone-fails', dict(inp, how=how), 'a clone', type(e).__name__))
                continue
            if not (c2 == a and hash(c2) == hash(a) and behaviour(c2) == behaviour(a)):
                res.add_violation(ID, run.viol('clone-differs', dict(inp, how=how), 'equal, hash-equal, same behaviour',
                                               {'eq': c2 == a, 'behaviour': behaviour(c2)}))
        for obj, attr in ((a, '_matcher'), (a, '_hash'), (a._matcher, '_include'), (a._matcher, '_real'), (a._matcher, '_exclude')):
            try:
                setattr(obj, attr, None)
                res.add_violation(ID, run.viol('mutable', dict(inp, attr=attr), 'AttributeError', 'assignment accepted'))
            except AttributeError:
                pass
        try:
            a.extra = 1
            res.add_violation(ID, run.viol('mutable', dict(inp, attr='extra'), 'AttributeError', 'assignment accepted'))
        except AttributeError:
            pass
        # deletion is mutation too (on a clone, so that a successful deletion cannot disturb the rest of the run)
        for path_, attr in (('', '_matcher'), ('', '_hash'), ('_matcher', '_include'), ('_matcher', '_exclude')):
            victim = copy.deepcopy(a)
            obj = getattr(victim, path_) if path_ else victim
            try:
                delattr(obj, attr)
                res.add_violation(ID, run.viol('mutable', dict(inp, attr='del ' + attr), 'AttributeError', 'deletion accepted'))
            except AttributeError:
                pass
        b0 = behaviour(a)
        for _ in range(200):
            if behaviour(a) != b0:
                res.add_violation(ID, run.viol('reuse-differs', inp, b0, behaviour(a)))
                break
        if list(a.filter(PROBES)) != [n for n, r in zip(PROBES, b0) if r is True]:
            res.add_violation(ID, run.viol('filter-vs-match', inp, [n for n, r in zip(PROBES, b0) if r is True], list(a.filter(PROBES))))
    # all pairs: == implies same behaviour, same flags of the inner matcher and same language
    k = 0
    for (c1, a1, _b1), (c2, a2, _b2) in itertools.combinations(objs, 2):
        k += 1
        if k % ns != sh:
            continue
        res.n['evaluations'] += 1
        eq = a1 == a2
        if eq != (not (a1 != a2)):
            res.add_violation(ID, run.viol('eq-ne-inconsistent', {'configs': [list(c1), list(c2)]}, 'consistent', {'eq': eq, 'ne': a1 != a2}))
        if eq:
            res.n['distinct_nontrivial'] += 1
            same = behaviour(a1) == behaviour(a2) and hash(a1) == hash(a2)
            w1, w2 = impl.wcregexp(a1), impl.wcregexp(a2)
            same = same and (w1._real, w1._path, w1._follow) == (w2._real, w2._path, w2._follow)
            if same and not w1._real:
                c = langcmp.equal(a1, a2, False)
                res.n['states'] += c.states
                same = c.witness is None
            if not same:
                res.outcomes.add('equal-but-different')
                res.add_violation(ID, run.viol('equal-objects-differ', {'configs': [list(c1), list(c2)]}, 'equal objects behave equally',
                                               {'behaviour1': behaviour(a1), 'behaviour2': behaviour(a2),
                                                'real': [w1._real, w2._real], 'hash_eq': hash(a1) == hash(a2)}))
            else:
                res.outcomes.add('equal-and-same')
        else:
            res.outcomes.add('not-equal')


def check_exclude_pairs(res):
    """Matchers that differ only in the text of their exclusions (same number of them) accept different names and are
    therefore never equal; `==` and `!=` never agree with each other."""
    for mode, mod in (('fn', F), ('glob', G)):
        for inc in ('*', ['a*', 'b*']):
            for e1, e2, probe in (('a*', 'b*', 'ab'), (['x', 'a'], ['x', 'ab'], 'a'), ('?', '??', 'a')):
                for how in ('exclude=', 'inline'):
                    res.n['evaluations'] += 1
                    res.n['distinct_nontrivial'] += 1
                    if how == 'exclude=':
                        m1, m2 = mod.compile(inc, exclude=e1), mod.compile(inc, exclude=e2)
                    else:
                        l1 = (inc if isinstance(inc, list) else [inc]) + ['!' + x for x in (e1 if isinstance(e1, list) else [e1])]
                        l2 = (inc if isinstance(inc, list) else [inc]) + ['!' + x for x in (e2 if isinstance(e2, list) else [e2])]
                        m1, m2 = mod.compile(l1, flags=mod.NEGATE), mod.compile(l2, flags=mod.NEGATE)
                    differ = bool(m1.match(probe)) != bool(m2.match(probe))
                    eq, ne = (m1 == m2), (m1 != m2)
                    ok = differ and not eq and ne and (m1._matcher == m2._matcher) is False and (m1._matcher != m2._matcher) is True
                    res.outcomes.add('exclusions-distinguish' if ok else 'exclusions-confused')
                    if not ok:
                        res.add_violation(ID, run.viol('equal-objects-differ', {'configs': [[mode, run.jsonable(inc), how, run.jsonable(e1)],
                                                                                            [mode, run.jsonable(inc), how, run.jsonable(e2)]],
                                                                               'layer': 'exclude-pairs'},
                                                       'not equal, != true', {'eq': eq, 'ne': ne, 'accept_differently': differ}))


# ---------------------------------------------------------------- planning

LINE_SUB = [0, 1, 3, 8, 15]           # cheap pure-matching calls: every line-level preemption
WALKERS = ('glob', 'wcmatch', 'globmatch.real', 'pathlib.match', 'glob.tilde', 'path.fs')


def plan(tier, seed):
    chunks = []
    depth = 3 if tier == 'quick' else 4
    want = clean_values()
    fd, wpath = tempfile.mkstemp(prefix='vfc19_want_', suffix='.json', dir=bind.scratch_base())
    with os.fdopen(fd, 'w') as f:
        json.dump(want, f)
    os.environ['VF_C19_WANT'] = wpath
    import atexit
    atexit.register(lambda: os.path.exists(wpath) and os.unlink(wpath))
    for i in range(len(POOL)):
        chunks.append(('seq', i, depth))
    npool = len(POOL) - 1
    nonwalk = [i for i, t in enumerate(POOL[:-1]) if t[0] not in WALKERS]
    walk = [i for i in range(npool) if i not in nonwalk]
    for i in range(npool):
        if tier == 'quick':
            chunks.append(('threads', i, 'call', nonwalk if i in nonwalk else [0, 15, walk[0]]))
        else:
            chunks.append(('threads', i, 'call', None))
    for i in (LINE_SUB if tier == 'quick' else nonwalk):
        chunks.append(('threads', i, 'line', LINE_SUB if tier == 'quick' else nonwalk))
    for sh in range(8):
        chunks.append(('objects', sh, 8))
    chunks.append(('fresh',))
    chunks.append(('residue',))
    return {
        'chunks': chunks,
        'coverage': {'pool': [list(run.jsonable(list(t))) for t in POOL], 'sequence_depth': depth, 'configs': len(CONFIGS),
                     'thread_pairs_call_granularity': (len(nonwalk) ** 2 + 3 * len(walk)) if tier == 'quick' else npool * npool,
                     'thread_pairs_line_granularity': len(LINE_SUB) ** 2 if tier == 'quick' else len(nonwalk) ** 2,
                     'preemption_bound': 1, 'fresh_interpreter': True, 'exhaustive': True},
        'rule': 'every sequence of pool calls up to the stated depth (at most one FLOOD per sequence), each call compared with '
                'its clean-state value; every ordered pair of pool calls on two threads under every schedule with at most one '
                'preemption; every matcher configuration and every pair of configurations; non-trivial = sequences of length '
                '>= 2, schedules with a preemption, pairs of equal objects',
        'assumptions': ['scheduling points are Python line / call events inside wcmatch/*.py; C code (re, lru_cache) is '
                        'atomic under the interpreter lock',
                        'reference values come from one fresh interpreter per pool call'],
        'nontrivial_floor': 500,
        'min_outcomes': 3,
    }


def run_chunk(chunk):
    res = run.ChunkResult()
    try:
        kind = chunk[0]
        want = clean_values(path=os.environ.get('VF_C19_WANT'))
        if kind == 'seq':
            check_sequences(chunk[1], chunk[2], res, want)
            res.samples.append({'sequence': [list(run.jsonable(list(POOL[chunk[1]]))), 'FLOOD', list(run.jsonable(list(POOL[0])))]})
        elif kind == 'threads':
            check_threads(chunk[1], chunk[2], res, chunk[3], want)
            res.samples.append({'threads': [list(run.jsonable(list(POOL[chunk[1]]))), list(run.jsonable(list(POOL[1])))], 'granularity': chunk[2]})
        elif kind == 'objects':
            check_objects(chunk[1], chunk[2], res)
            res.samples.append({'config': list(CONFIGS[3])})
        elif kind == 'residue':
            check_exclude_pairs(res)
            check_residual_state(res)
            res.samples.append({'residual_state': list(run.jsonable(list(DIRFD_TUPLES[0])))})
        else:
            fresh_interpreter_values(res, want)
    finally:
        cleanup()
    return res


def _tuple(t):
    t = list(t)
    if isinstance(t[3], list) and t[0] == 'globmatch.real':
        t[3] = tuple(t[3])
    return tuple(t)


def replay(v):
    inp = v['input']
    k = v['kind']
    try:
        if k == 'history-dependence':
            seq = [_tuple(run.unjson(t)) for t in inp['sequence']]
            want = fresh_value([tid(t) for t in POOL].index(tid(seq[-1])))
            bind.clear_caches()
            got = None
            for t in seq:
                got = run.jsonable(execute(t))
            return {'violates': got != want, 'observed': got}
        if k in ('schedule-dependence', 'deadlock'):
            calls = tuple(_tuple(run.unjson(t)) for t in inp['calls'])
            want = [fresh_value([tid(t) for t in POOL].index(tid(t))) for t in calls]
            vals, cnt = run_schedule(calls, inp.get('first', 0), inp.get('preempt_at'), inp.get('granularity', 'call'))
            return {'violates': vals != want, 'observed': vals}
        if k == 'residual-state':
            r = run.ChunkResult()
            check_residual_state(r)
            hit = [x for x in r.viol if x['kind'] == k and run.jsonable(x['input']['call']) == run.jsonable(inp['call'])]
            return {'violates': bool(hit), 'observed': hit[0]['observed'] if hit else 'ok'}
        if k == 'fresh-interpreter-differs':
            r = run.ChunkResult()
            fresh_interpreter_values(r, clean_values())
            return {'violates': bool(r.viol), 'observed': r.viol[0]['observed'] if r.viol else 'ok'}
        r = run.ChunkResult()
        if inp.get('layer') == 'exclude-pairs':
            check_exclude_pairs(r)
            hit = [x for x in r.viol if x['input'] == run.jsonable(inp)]
            return {'violates': bool(hit), 'observed': hit[0]['observed'] if hit else 'ok'}
        check_objects(0, 1, r)
        hit = [x for x in r.viol if x['kind'] == k and x['input'] == run.jsonable(inp)]
        return {'violates': bool(hit), 'observed': hit[0]['observed'] if hit else 'ok'}
    finally:
        cleanup()
