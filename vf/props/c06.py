"""C06 - `**` does not traverse symlinked directories unless asked; glob terminates.

FSX exploration restricted to states that contain at least one symlink, patterns containing `**` / `***` (plus
explicit `link/*` forms), flag sets over FOLLOW, GLOBSTARLONG, MATCHBASE, DOTGLOB.  In every state:
  (a) the real glob() result is compared with the reference walker (which implements the link rule);
  (b) every directory the library lists (os.scandir is wrapped) must be reachable by an alignment of the pattern's
      segments in which no symlink component is consumed by a non-following globstar;
  (c) the number of scandir calls stays below a horizon (termination on cyclic trees when links are not followed);
  (d) WcMatch without SYMLINKS terminates and never enters a symlinked directory (os.walk / os.scandir wrapped).
"""
import os

from .. import bind, run, fsx, fspat, refglob, fscommon, ref_aut, pat
from wcmatch import glob as G, wcmatch as WM

def _leaves(paths):
    """Some result lies outside the scratch tree (reached through `..`): a directory other processes write to."""
    return any(x == '..' or x.startswith('../') or '/../' in x or x.endswith('/..') for x in paths)


ID = 'C06'
LEVEL = 'exploration'
REPLAY_DEADLINE = 120
HORIZON = 400

FLAGSETS = ['GE', 'GEF', 'LE', 'LEF', 'GEX', 'GEFX', 'LEFX', 'GDE', 'GDEF', 'LDE']


def has_symlink(desc):
    return any(' -> ' in x for x in desc)


def follows(text, fs):
    return ('F' in fs and 'L' not in fs) or ('L' in fs and '***' in text) or ('L' in fs and 'F' in fs and 'X' in fs)


def relevant_patterns():
    out = []
    for text, ast, tags in fspat.pattern_set('quick'):
        if 'gstar' in tags:
            out.append((text, ast, tags))
    T = dict(fspat.SEGS_FULL)
    for extra in (['a', '*'], ['b', '*'], ['.h', '*'], ['a', 'b', '*'], ['*', '*'], ['a', '**', 'b'], ['b', '***'], ['***', 'a'],
                  ['*', '***', '*'], ['**', '*', '**'], ['**', 'a', '***'], ['**', '*', '***'], ['***', 'a', '**'],
                  ['**', 'b', '***'], ['**', 'a', '***', 'b'], ['***', '*', '**'], ['**', '[ab]', '***', '*']):
        ast = fspat.build(extra, T)
        t = pat.render(ast)
        if t not in [x[0] for x in out]:
            out.append((t, ast, {'gstar'} if '**' in t else set()))
    return out


def aligned(model, comps, segs, pf, fl, follow_flag):
    """Is there an alignment of the listed directory's components with a prefix of the pattern's segments in which
    every component consumed by a globstar is either no symlink or consumed by a following globstar?"""
    n, m = len(comps), len(segs)
    memo = {}

    def go(i, j):
        if i == n:
            return True
        if j == m:
            return False
        key = (i, j)
        if key in memo:
            return memo[key]
        seg = segs[j]
        r = False
        if refglob._is_gstar(seg, pf):
            # consecutive globstars merge; the merged one follows links if any member does
            j2 = j
            while j2 + 1 < m and refglob._is_gstar(segs[j2 + 1], pf):
                j2 += 1
            k = max(segs[x][0][1] for x in range(j, j2 + 1))
            fol = (follow_flag and not fl.L) or k == 3
            # zero components
            if go(i, j + 1):
                r = True
            else:
                p = '/'.join(comps[:i + 1])
                c = comps[i]
                ok = c not in ('.', '..') and (fol or not model.islink(p)) and (fl.D or not c.startswith('.'))
                if ok and go(i + 1, j):
                    r = True
        else:
            c = comps[i]
            if refglob.is_literal(seg):
                t = refglob.seg_text(seg)
                ok = (c.lower() == t.lower()) if fl.I else c == t
            else:
                # any match of the segment language (hidden discipline is not this property's business)
                ok = bool(refglob.seg_matcher(seg, fl.I).leads(c))
            if ok and go(i + 1, j + 1):
                r = True
        memo[key] = r
        return r
    return go(0, 0)


def check_state(desc, sc, pats, flagsets, res):
    state = fsx.from_desc(desc)
    sc.load(state)
    model = fsx.Model(state)
    cyc = model.has_cycle()
    res.n['fs_states_evaluated'] += 1
    for fs in flagsets:
        fl = refglob.Flags(fs)
        for text, ast, tags in pats:
            fo = follows(text, fs)
            if cyc and fo:
                res.notes['skipped_follow_on_cyclic_tree'] += 1
                continue
            res.n['evaluations'] += 1
            inp = {'tree': desc, 'pattern': text, 'flags': fs}
            with fsx.ScandirMonitor(HORIZON) as mon:
                try:
                    got = G.glob(text, flags=fscommon.gflags(fs), root_dir=sc.root)
                except fsx.Horizon:
                    got = None
            if got is None:
                res.add_violation(ID, run.viol('no-termination', inp, 'at most %d directory listings' % HORIZON,
                                               {'scandir_calls': len(mon.log)}))
                continue
            res.outcomes.add('listings=%d' % min(len(mon.log), 9))
            # (a0) the same rule whichever way the root is given: a directory descriptor instead of a path
            if len(text) % 2 == 0 and '..' not in text:
                fd = os.open(sc.root, os.O_RDONLY | os.O_DIRECTORY)
                try:
                    with fsx.ScandirMonitor(HORIZON):
                        try:
                            got_fd = G.glob(text, flags=fscommon.gflags(fs), dir_fd=fd)
                        except fsx.Horizon:
                            got_fd = None
                finally:
                    os.close(fd)
                res.n['evaluations'] += 1
                if (got_fd is None or sorted(got_fd) != sorted(got)) and not _leaves(list(got) + list(got_fd or [])):
                    res.add_violation(ID, run.viol('dir_fd-differs', inp, sorted(got), got_fd if got_fd is None else sorted(got_fd)))
                # ... and as bytes
                with fsx.ScandirMonitor(HORIZON):
                    try:
                        got_b = sorted(os.fsdecode(x) for x in G.glob(os.fsencode(text), flags=fscommon.gflags(fs), root_dir=os.fsencode(sc.root)))
                    except fsx.Horizon:
                        got_b = None
                res.n['evaluations'] += 1
                if got_b != sorted(got) and not _leaves(list(got) + list(got_b or [])):
                    res.add_violation(ID, run.viol('bytes-differs', inp, sorted(got), got_b))
            # (a) reference
            try:
                ref = refglob.ref_glob(model, ast, fl)
            except (OverflowError, fsx.Unknown):
                ref = None
            if ref is not None:
                gotn = sorted(set(refglob.norm(x) for x in got))
                must = sorted(set(refglob.norm(p) for p, st in ref.items() if st == 'must'))
                allowed = set(refglob.norm(p) for p in ref)
                missing = [p for p in must if p not in gotn]
                extra = [p for p in gotn if p not in allowed]
                if must:
                    res.n['distinct_nontrivial'] += 1
                if missing or extra:
                    v = run.viol('glob-vs-reference', inp, {'must': must, 'may': sorted(allowed - set(must))},
                                 {'result': gotn, 'missing': missing, 'extra': extra})
                    v['ast'] = repr(ast)
                    res.add_violation(ID, v)
            # (a') globmatch(REALPATH) applies the same rule to the path it is given
            if ref is not None:
                from . import c04
                cands = [c for c in c04.candidates(model, got) if not c.endswith('/') or model.isdir(c.rstrip('/'))]
                acc = set(G.globfilter(cands, text, flags=fscommon.gflags(fs) | G.REALPATH, root_dir=sc.root))
                wr = sorted(c for c in cands if refglob.norm(c) in must and c not in acc)
                wa = sorted(c for c in cands if refglob.norm(c) not in allowed and c in acc)
                res.n['globmatch_candidates_checked'] += len(cands)
                if len(text) % 2 == 1 and '..' not in text:
                    # the matcher applies the same link rule when the root is a directory descriptor
                    fd = os.open(sc.root, os.O_RDONLY | os.O_DIRECTORY)
                    try:
                        acc_fd = set(G.globfilter(cands, text, flags=fscommon.gflags(fs) | G.REALPATH, dir_fd=fd))
                    finally:
                        os.close(fd)
                    if acc_fd != acc:
                        res.add_violation(ID, run.viol('realpath-dir_fd-differs', inp, sorted(acc), sorted(acc_fd)))
                if len(text) % 3 == 0:
                    # an exclude= argument that matches nothing must not change which paths are accepted
                    acc2 = set(G.globfilter(cands, text, flags=fscommon.gflags(fs) | G.REALPATH, root_dir=sc.root, exclude='zz*'))
                    acc2 |= {c for c in acc if refglob.norm(c).rsplit('/', 1)[-1].startswith('zz')}
                    if acc2 != acc:
                        v = run.viol('exclude-changes-link-rule', inp, sorted(acc), sorted(acc2))
                        res.add_violation(ID, v)
                if wr or wa:
                    v = run.viol('globmatch-vs-reference', inp, {'must': must, 'may': sorted(allowed - set(must))},
                                 {'wrongly_rejected': wr, 'wrongly_accepted': wa})
                    v['ast'] = repr(ast)
                    res.add_violation(ID, v)
            # (b) listings
            a2 = ast if fl.E else pat.desugar(ast)
            absolute, segs, trailing = ref_aut.split_segments(a2)
            has_sep = any(nd[0] == 'sep' for nd in a2)
            pf = ref_aut.PathFlags(globstar=fl.G, globstarlong=fl.L)
            if fl.X and not has_sep:
                segs = [(refglob.IMPLICIT3 if (fl.L and fl.F) else refglob.IMPLICIT2)] + list(segs)
            for p in mon.log:
                rel = p[len(sc.root):].lstrip('/') if p.startswith(sc.root) else p
                if rel in ('', '.'):
                    continue
                comps = [c for c in rel.split('/') if c]
                if '..' in comps or not any(model.islink('/'.join(comps[:i + 1])) for i in range(len(comps))):
                    continue
                res.n['listings_through_links_checked'] += 1
                if not aligned(model, comps, list(segs), pf, fl, 'F' in fs):
                    v = run.viol('listed-through-symlink-under-globstar', dict(inp, listed=rel),
                                 'no directory is listed through a symlink matched by `**`', {'listed': rel})
                    v['ast'] = repr(ast)
                    res.add_violation(ID, v)
                    break
    # (d) WcMatch without SYMLINKS
    for wf, wn in ((WM.RECURSIVE | WM.HIDDEN, 'RV|HD'), (WM.RECURSIVE, 'RV'), (WM.RECURSIVE | WM.HIDDEN | WM.FILEPATHNAME | WM.GLOBSTAR, 'RV|HD|FP|G')):
        res.n['evaluations'] += 1
        inp = {'tree': desc, 'wcmatch_flags': wn}
        with fsx.ScandirMonitor(HORIZON) as mon:
            try:
                files = WM.WcMatch(sc.root, '*' if not wf & WM.FILEPATHNAME else '**/*', flags=wf).match()
            except fsx.Horizon:
                files = None
        if files is None:
            res.add_violation(ID, run.viol('wcmatch-no-termination', inp, 'terminates', {'scandir_calls': len(mon.log)}))
            continue
        for p in mon.log:
            rel = os.path.relpath(p, sc.root)
            comps = [] if rel == '.' else rel.split('/')
            if any(model.islink('/'.join(comps[:i + 1])) for i in range(len(comps))):
                res.add_violation(ID, run.viol('wcmatch-entered-symlink', inp, 'no directory reached through a symlink',
                                               {'listed': rel}))
                break
        for f in files:
            rel = os.path.relpath(f, sc.root)
            comps = rel.split('/')[:-1]
            if any(model.islink('/'.join(comps[:i + 1])) for i in range(len(comps))):
                res.add_violation(ID, run.viol('wcmatch-entered-symlink', inp, 'no file below a symlinked directory',
                                               {'file': rel}))
                break


def plan(tier, seed):
    st_chunks, cov = fscommon.state_chunks(tier, seed, quick=(2, 3, 2), thorough=(3, 4, 4),
                                           extra_roots=fscommon.SEED_STATES, per_chunk=24)
    chunks = []
    n = 0
    for c in st_chunks:
        c2 = [d for d in c if has_symlink(d)]
        n += len(c2)
        if c2:
            chunks.append(('std', c2))
    cov['fs_states_with_symlinks'] = n
    cov['patterns'] = len(relevant_patterns())
    cov['flagsets'] = FLAGSETS
    cov['scandir_horizon'] = HORIZON
    cov['exhaustive'] = True
    return {
        'chunks': chunks,
        'coverage': cov,
        'rule': 'every explored file-system state that contains a symlink (to an ancestor, a sibling directory, a file, a '
                'hidden directory, nowhere) x every FS pattern containing ** or *** plus explicit link/* forms x flag sets '
                'over FOLLOW, GLOBSTARLONG, MATCHBASE, DOTGLOB; os.scandir wrapped to log and bound directory listings; '
                'non-trivial = evaluations with a non-empty reference result',
        'assumptions': ['link-following configurations are evaluated only on trees without directory cycles '
                        '(termination is promised only when links are not followed)'],
        'nontrivial_floor': 500,
    }


def run_chunk(chunk):
    kind, descs = chunk
    res = run.ChunkResult()
    sc = fsx.Scratch()
    try:
        pats = relevant_patterns()
        for d in descs:
            check_state(d, sc, pats, FLAGSETS, res)
        res.samples.append({'tree': descs[0], 'pattern': pats[5][0], 'flags': FLAGSETS[1]})
    finally:
        sc.close()
    return res


def replay(v):
    inp = v['input']
    sc = fsx.Scratch()
    try:
        state = fsx.from_desc(inp['tree'])
        sc.load(state)
        model = fsx.Model(state)
        k = v['kind']
        if k.startswith('wcmatch'):
            r = run.ChunkResult()
            check_state(inp['tree'], sc, [], [], r)
            hit = [x for x in r.viol if x['kind'] == k and x['input'] == run.jsonable(inp)]
            return {'violates': bool(hit), 'observed': hit[0]['observed'] if hit else 'ok'}
        with fsx.ScandirMonitor(HORIZON) as mon:
            try:
                got = G.glob(inp['pattern'], flags=fscommon.gflags(inp['flags']), root_dir=sc.root)
            except fsx.Horizon:
                got = None
        if k == 'no-termination':
            return {'violates': got is None, 'observed': {'scandir_calls': len(mon.log)}}
        if got is None:
            return {'violates': True, 'observed': 'no termination'}
        if k == 'bytes-differs':
            got_b = sorted(os.fsdecode(x) for x in G.glob(os.fsencode(inp['pattern']), flags=fscommon.gflags(inp['flags']),
                                                         root_dir=os.fsencode(sc.root)))
            return {'violates': got_b != sorted(got), 'observed': got_b}
        if k == 'realpath-dir_fd-differs':
            from . import c04
            cands = [c for c in c04.candidates(model, got) if not c.endswith('/') or model.isdir(c.rstrip('/'))]
            fl = fscommon.gflags(inp['flags']) | G.REALPATH
            a = set(G.globfilter(cands, inp['pattern'], flags=fl, root_dir=sc.root))
            fd = os.open(sc.root, os.O_RDONLY | os.O_DIRECTORY)
            try:
                b = set(G.globfilter(cands, inp['pattern'], flags=fl, dir_fd=fd))
            finally:
                os.close(fd)
            return {'violates': a != b, 'observed': sorted(b)}
        if k == 'dir_fd-differs':
            fd = os.open(sc.root, os.O_RDONLY | os.O_DIRECTORY)
            try:
                with fsx.ScandirMonitor(HORIZON):
                    try:
                        got_fd = sorted(G.glob(inp['pattern'], flags=fscommon.gflags(inp['flags']), dir_fd=fd))
                    except fsx.Horizon:
                        got_fd = None
            finally:
                os.close(fd)
            return {'violates': got_fd != sorted(got), 'observed': got_fd}
        if k == 'exclude-changes-link-rule':
            from . import c04
            cands = [c for c in c04.candidates(model, got) if not c.endswith('/') or model.isdir(c.rstrip('/'))]
            fl = fscommon.gflags(inp['flags']) | G.REALPATH
            a = set(G.globfilter(cands, inp['pattern'], flags=fl, root_dir=sc.root))
            b = set(G.globfilter(cands, inp['pattern'], flags=fl, root_dir=sc.root, exclude='zz*'))
            b |= {c for c in a if refglob.norm(c).rsplit('/', 1)[-1].startswith('zz')}
            return {'violates': a != b, 'observed': sorted(b)}
        if k == 'globmatch-vs-reference':
            from . import c04
            cands = [c for c in c04.candidates(model, got) if not c.endswith('/') or model.isdir(c.rstrip('/'))]
            acc = set(G.globfilter(cands, inp['pattern'], flags=fscommon.gflags(inp['flags']) | G.REALPATH, root_dir=sc.root))
            must = v['expected']['must']
            allowed = set(must) | set(v['expected']['may'])
            wr = sorted(c for c in cands if refglob.norm(c) in must and c not in acc)
            wa = sorted(c for c in cands if refglob.norm(c) not in allowed and c in acc)
            return {'violates': bool(wr or wa), 'observed': {'wrongly_rejected': wr, 'wrongly_accepted': wa}}
        if k == 'glob-vs-reference':
            gotn = sorted(set(refglob.norm(x) for x in got))
            must = v['expected']['must']
            allowed = set(must) | set(v['expected']['may'])
            bad = [p for p in must if p not in gotn] or [p for p in gotn if p not in allowed]
            return {'violates': bool(bad), 'observed': {'result': gotn}}
        rels = [os.path.relpath(p, sc.root) if os.path.isabs(p) else p for p in mon.log]
        return {'violates': inp['listed'] in rels, 'observed': {'listed': sorted(set(rels))}}
    finally:
        sc.close()
