"""C14 - WcMatch returns exactly the files a filtered directory walk selects.

FSX exploration: in every state, for every (file pattern, folder-exclude pattern) pair from pools with `|`,
negations, groups, braces, path patterns and the empty pattern x a covering family of flag subsets of {RECURSIVE,
HIDDEN, SYMLINKS, FILEPATHNAME, DIRPATHNAME, MATCHBASE, GLOBSTAR, EXTMATCH, BRACE, MINUSNEGATE, IGNORECASE}:
WcMatch.match() as a multiset equals an independent recursive walk over the *model* of the state with the
per-directory / per-file predicates written from the statement; get_skipped() == files visited - files returned.
"""
import collections
import itertools
import os

from .. import bind, run, fsx, fscommon
from wcmatch import wcmatch as WM, fnmatch as F, glob as G

ID = 'C14'
LEVEL = 'exploration'
REPLAY_DEADLINE = 60

WF = {'R': WM.RECURSIVE, 'H': WM.HIDDEN, 'S': WM.SYMLINKS, 'F': WM.FILEPATHNAME, 'D': WM.DIRPATHNAME, 'X': WM.MATCHBASE,
      'G': WM.GLOBSTAR, 'E': WM.EXTMATCH, 'B': WM.BRACE, 'M': WM.MINUSNEGATE, 'I': WM.IGNORECASE, 'C': WM.CASE}
LETTERS = 'RHSFDXGEBMI'

FILE_PATS = ['*', '', 'a', '.h', 'a|b', '!a', '*|!a', '!a|!b', '-a', '@(a|b)', '{a,b}', '**/a', 'a/*', '*/a', '*/*', 'b', '.*',
             '!*/a', '**', '[ab]', '!.h', '/a', '/*/a', '**/*|!/a/*', '/b|a',
             # the same text positive and negated in one pattern; a negation sign in front of a literal parenthesis
             'a|!a', '!a|a', '{,!}a', '*|!*', '-(a)*', '*|-(a)', '!(a)', '!(a)|!b', '-a|a', '//a', '*|!//a', 'zz|//a/a']
EXCL_PATS = ['', 'a', '.h', '!a', 'b|a', '*/a', '**/a', 'a/', '*', '-b', '!a/b', '.*', '/a', '/a/b', 'a|!a', '-(a)', '!a|a', '//a']
FILE_PATS_CASE = ['a', 'A', '[aA]', '*', '!A', 'a|B']


# names ending in a newline: `a` and `a\n` are different files, `b` and `b\n` different directories
ODD_STATE = ['a', 'a\n', 'b\n/', 'b\n/a', 'b/', 'b/a\n', '.h\n']


def wflags(fs):
    f = 0
    for ch in fs:
        f |= WF[ch]
    return f


def covering(letters):
    out = {'', letters}
    L = list(letters)
    for k in (1, 2):
        for c in itertools.combinations(L, k):
            out.add(''.join(c))
            out.add(''.join(x for x in L if x not in c))
    return sorted(out)


def split_top(pattern, ext):
    """Pieces between top-level unescaped `|` (not inside brackets or, under EXTMATCH, extended groups)."""
    out = []
    cur = []
    depth = 0
    i = 0
    n = len(pattern)
    while i < n:
        c = pattern[i]
        if c == '\\' and i + 1 < n:
            cur.append(pattern[i:i + 2])
            i += 2
            continue
        if c == '[':
            j = pattern.find(']', i + 2)
            if j > 0:
                cur.append(pattern[i:j + 1])
                i = j + 1
                continue
        if ext and c in '?*+@!' and pattern[i + 1:i + 2] == '(':
            depth += 1
            cur.append(pattern[i:i + 2])
            i += 2
            continue
        if c == ')' and depth:
            depth -= 1
        if c == '|' and depth == 0:
            out.append(''.join(cur))
            cur = []
        else:
            cur.append(c)
        i += 1
    out.append(''.join(cur))
    return out


def brace_expand(piece):
    """The pool only uses one flat `{x,y}` group."""
    a = piece.find('{')
    b = piece.find('}', a)
    if a < 0 or b < 0:
        return [piece]
    return [piece[:a] + x + piece[b + 1:] for x in piece[a + 1:b].split(',')]


def pattern_pred(pattern, fs, pathmode):
    """Predicate name -> bool for one WcMatch pattern, written from the statement: BRACE expansion, then `|` splitting,
    `!` (or `-` under MINUSNEGATE; never `!(` under EXTMATCH) negation with 'everything except' when no positive piece
    exists, dot-matching forced on; path modes match the root-relative path, a leading slash anchors to the root and
    switches MATCHBASE off.  Single pieces are matched with the library's single-pattern matcher (no NEGATE / SPLIT /
    BRACE / NEGATEALL involved), so the list logic here is independent of the library's."""
    if pattern == '':
        return None
    mod = G if pathmode else F
    fl = mod.DOTMATCH | mod.FORCEUNIX
    for ch, name in (('E', 'EXTMATCH'), ('I', 'IGNORECASE'), ('C', 'CASE')):
        if ch in fs:
            fl |= getattr(mod, name)
    if pathmode and 'G' in fs:
        fl |= G.GLOBSTAR
    pieces = []
    for p in (brace_expand(pattern) if 'B' in fs else [pattern]):
        pieces.extend(split_top(p, 'E' in fs))
    sym = '-' if 'M' in fs else '!'
    pos, neg = [], []
    for p in pieces:
        isneg = p.startswith(sym) and not (sym == '!' and 'E' in fs and p.startswith('!('))
        body = p[1:] if isneg else p
        f2 = fl
        if pathmode:
            if body.startswith('/'):
                body = body.lstrip('/')
            elif 'X' in fs:
                f2 |= G.MATCHBASE
        m = mod.compile(body, flags=f2) if body != '' else None
        (neg if isneg else pos).append(m)
    everything = not pos and bool(neg)

    def pred(name):
        if not everything and not any(m is not None and m.match(name) for m in pos):
            return False
        return not any(m is not None and m.match(name) for m in neg)
    return pred


def reference_walk(model, fpat, epat, fs):
    """-> (list of root-relative files selected, number of files visited)"""
    recursive, hidden, symlinks = 'R' in fs, 'H' in fs, 'S' in fs
    fp = pattern_pred(fpat, fs, 'F' in fs)
    ep = pattern_pred(epat, fs, 'D' in fs)
    out = []
    visited = 0
    stack = ['']
    guard = 0
    while stack:
        d = stack.pop()
        guard += 1
        if guard > 2000:
            raise OverflowError('reference walk too large')
        for n in model.listdir(d if d else '.') or []:
            rel = (d + '/' + n) if d else n
            if model.isdir(rel):
                # a directory (or a link to one): descend?
                if not recursive:
                    continue
                if ep is not None and ep((rel + '/') if 'D' in fs else n):
                    continue
                if not hidden and n.startswith('.'):
                    continue
                if model.islink(rel) and not symlinks:
                    continue
                stack.append(rel)
            else:
                visited += 1
                ok = True if fp is None else fp(rel if 'F' in fs else n)
                if ok and not hidden and n.startswith('.'):
                    ok = False
                if ok:
                    out.append(rel)
    return out, visited


def check_state(desc, sc, pairs, flagsets, res):
    state = fsx.from_desc(desc)
    sc.load(state)
    model = fsx.Model(state)
    cyc = model.has_cycle()
    res.n['fs_states_evaluated'] += 1
    root = sc.root
    for k, (fpat, epat) in enumerate(pairs):
        for j, fs in enumerate(flagsets):
            if (k + j) % 3:
                continue
            if cyc and 'S' in fs and 'R' in fs:
                continue
            if ('/' in fpat and 'F' not in fs) or ('/' in epat and 'D' not in fs):
                continue
            inp = {'tree': desc, 'file_pattern': fpat, 'exclude_pattern': epat, 'flags': fs}
            res.n['evaluations'] += 1
            try:
                with fsx.ScandirMonitor(3000):
                    w = WM.WcMatch(root, fpat, epat, flags=wflags(fs))
                    got = w.match()
                    skipped = w.get_skipped()
            except fsx.Horizon:
                res.add_violation(ID, run.viol('no-termination', inp, 'terminates', 'horizon'))
                continue
            except Exception as e:  # noqa: BLE001
                res.add_violation(ID, run.viol('raises', inp, 'a list', {'exc': type(e).__name__, 'msg': str(e)[:80]}))
                continue
            try:
                want, visited = reference_walk(model, fpat, epat, fs)
            except OverflowError:
                continue
            gotr = sorted(os.path.relpath(x, root) for x in got)
            if want and len(want) < visited:
                res.n['distinct_nontrivial'] += 1
            if gotr != sorted(want):
                res.outcomes.add('walk-differs')
                res.add_violation(ID, run.viol('wcmatch-vs-reference-walk', inp, sorted(want),
                                               {'result': gotr, 'missing': sorted(set(want) - set(gotr)),
                                                'extra': sorted(set(gotr) - set(want))}))
            elif skipped != visited - len(want):
                res.outcomes.add('skipped-differs')
                res.add_violation(ID, run.viol('skipped-count', inp, visited - len(want), skipped))
            else:
                res.outcomes.add('walk-agrees' if want else 'walk-agrees-empty')
                if (k + j) % 4 == 1 and ('F' in fs or 'D' in fs):
                    # the root spelled with a trailing separator is the same root
                    try:
                        alt = sorted(os.path.relpath(x, root) for x in WM.WcMatch(root + '/', fpat, epat, flags=wflags(fs)).match())
                    except Exception as e:  # noqa: BLE001
                        alt = type(e).__name__
                    if alt != gotr:
                        res.add_violation(ID, run.viol('root-trailing-separator', inp, gotr, alt))
                if (k + j) % 5 == 0:
                    # the same object run again: same files, counter restarted
                    again = sorted(os.path.relpath(x, root) for x in w.match())
                    if again != gotr or w.get_skipped() != skipped:
                        res.add_violation(ID, run.viol('rerun-differs', inp, {'result': gotr, 'skipped': skipped},
                                                       {'result': again, 'skipped': w.get_skipped()}))


def plan(tier, seed):
    st_chunks, cov = fscommon.state_chunks(tier, seed, extra_roots=fscommon.SEED_STATES, per_chunk=8)
    chunks = [('std', c) for c in st_chunks]
    cs_chunks, cov2 = fscommon.state_chunks(tier, seed, quick=(2, 2, 1), thorough=(3, 3, 1), names=('a', 'A', 'b'), per_chunk=8)
    chunks += [('case', c) for c in cs_chunks]
    chunks += [('std', [ODD_STATE])]
    cov['case_layer'] = cov2
    cov['odd_state'] = ODD_STATE
    cov.update({'file_patterns': FILE_PATS, 'exclude_patterns': EXCL_PATS, 'flag_letters': LETTERS,
                'flag_family': 'all subsets of size <= 2 and their complements (%d sets); each (pair, flag set) with '
                               '(pair index + flag index) %% 3 == 0' % len(covering(LETTERS)), 'exhaustive': True})
    return {
        'chunks': chunks,
        'coverage': cov,
        'rule': 'every explored file-system state x every (file pattern, exclude pattern) pair of the pools x a pairwise-'
                'covering family of flag subsets (a third of the pair x flag grid, rotating); expected value from an '
                'independent walk of the state model with predicates written from the statement; non-trivial = evaluations '
                'selecting some but not all visited files',
        'assumptions': ['single-pattern name/path matching uses the library\'s fnmatch / globmatch as sub-oracle '
                        '(C01/C02/C07 decide those); the walk, pruning, hidden/symlink rules and counters are independent',
                        'SYMLINKS|RECURSIVE only on trees without directory cycles'],
        'nontrivial_floor': 500,
    }


def run_chunk(chunk):
    kind, descs = chunk
    res = run.ChunkResult()
    sc = fsx.Scratch()
    try:
        if kind == 'std':
            # the full grid of the first pools; the later additions (sign / duplicate-text cases) against a few partners
            nf, ne = 25, 14
            pairs = [(f, e) for f in FILE_PATS[:nf] for e in EXCL_PATS[:ne]]
            pairs += [(f, e) for f in FILE_PATS[nf:] for e in ('', 'a', '!a')]
            pairs += [(f, e) for f in ('*', 'a|b', '**/a') for e in EXCL_PATS[ne:]]
            flagsets = covering(LETTERS)
        else:
            pairs = [(f, e) for f in FILE_PATS_CASE for e in ('', 'A', 'a')]
            flagsets = ['RHI', 'RH', 'RHC', 'RHIC', 'RHIF', 'RHID']
        for d in descs:
            check_state(d, sc, pairs, flagsets, res)
        res.samples.append({'tree': descs[0], 'file_pattern': pairs[5][0], 'exclude_pattern': pairs[5][1], 'flags': flagsets[3]})
    finally:
        sc.close()
    return res


def replay(v):
    inp = v['input']
    r = run.ChunkResult()
    sc = fsx.Scratch()
    try:
        state = fsx.from_desc(inp['tree'])
        sc.load(state)
        model = fsx.Model(state)
        w = WM.WcMatch(sc.root, inp['file_pattern'], inp['exclude_pattern'], flags=wflags(inp['flags']))
        try:
            with fsx.ScandirMonitor(3000):
                got = w.match()
        except fsx.Horizon:
            return {'violates': True, 'observed': 'no termination'}
        except Exception as e:  # noqa: BLE001
            return {'violates': v['kind'] == 'raises', 'observed': type(e).__name__}
        gotr = sorted(os.path.relpath(x, sc.root) for x in got)
        if v['kind'] == 'root-trailing-separator':
            alt = sorted(os.path.relpath(x, sc.root) for x in WM.WcMatch(sc.root + '/', inp['file_pattern'], inp['exclude_pattern'],
                                                                         flags=wflags(inp['flags'])).match())
            return {'violates': alt != gotr, 'observed': alt}
        if v['kind'] == 'skipped-count':
            return {'violates': w.get_skipped() != v['expected'], 'observed': w.get_skipped()}
        if v['kind'] == 'rerun-differs':
            sk = w.get_skipped()
            again = sorted(os.path.relpath(x, sc.root) for x in w.match())
            return {'violates': again != gotr or w.get_skipped() != sk, 'observed': {'result': again, 'skipped': w.get_skipped()}}
        return {'violates': gotr != v['expected'], 'observed': {'result': gotr}}
    finally:
        sc.close()
