"""C10 - every string is an acceptable pattern: no crashes, no invalid regexes.

Exhaustive bounded input enumeration on the real code: all strings up to a length over a 12-symbol metacharacter
alphabet and (shorter) over a 21-symbol one, as str and bytes, token mutations of valid generated patterns, and
regex-significant substrings planted in small templates x covering flag families x every entry point (compile,
translate, fnmatch/globmatch/filter on three names, is_magic, escape, WcSplit via SPLIT, _GlobSplit via glob() and
Path.glob on a small real tree, WcMatch).  Oracle: only documented exceptions, every translate() regex compiles,
match and translate agree on the probe names; malformed constructs mean what their escaped spelling means
(product-automaton equality) and what Bash's [[ ]] says where Bash is unambiguous.
"""
import itertools
import os
import re
import shutil
import tempfile

from .. import bind, run, pat, langcmp, bashref, impl
from wcmatch import fnmatch as F, glob as G, wcmatch as WM, pathlib as WP, _wcparse

ID = 'C10'
LEVEL = 'exploration'
REPLAY_DEADLINE = 60

ALPHA12 = '*?[]()|!@\\/a'
ALPHA21 = ALPHA12 + '+-^.{},:#'
NAMES = ['a', 'a/a', '!(']
PLE = _wcparse.PatternLimitException

FN_FLAGS = [('E', F.EXTMATCH), ('', 0), ('ENS', F.EXTMATCH | F.NEGATE | F.SPLIT), ('EB', F.EXTMATCH | F.BRACE),
            ('ED', F.EXTMATCH | F.DOTMATCH), ('EW', F.EXTMATCH | F.FORCEWIN), ('ENMA', F.EXTMATCH | F.NEGATE | F.MINUSNEGATE | F.NEGATEALL),
            ('ER', F.EXTMATCH | F.RAWCHARS), ('EI', F.EXTMATCH | F.IGNORECASE)]
GL_FLAGS = [('GE', G.GLOBSTAR | G.EXTGLOB), ('G', G.GLOBSTAR), ('GENS', G.GLOBSTAR | G.EXTGLOB | G.NEGATE | G.SPLIT),
            ('GEB', G.GLOBSTAR | G.EXTGLOB | G.BRACE), ('GEDZ', G.GLOBSTAR | G.EXTGLOB | G.DOTGLOB | G.NODOTDIR),
            ('GEW', G.GLOBSTAR | G.EXTGLOB | G.FORCEWIN), ('LEX', G.GLOBSTARLONG | G.EXTGLOB | G.MATCHBASE),
            ('GEOK', G.GLOBSTAR | G.EXTGLOB | G.NODIR), ('GEP', G.GLOBSTAR | G.EXTGLOB | G.REALPATH),
            ('GET', G.GLOBSTAR | G.EXTGLOB | G.GLOBTILDE), ('GER', G.GLOBSTAR | G.EXTGLOB | G.RAWCHARS),
            ('GEWC', G.GLOBSTAR | G.EXTGLOB | G.FORCEWIN | G.CASE),
            ('GENP', G.GLOBSTAR | G.EXTGLOB | G.NEGATE | G.REALPATH),
            ('GEWO', G.GLOBSTAR | G.EXTGLOB | G.FORCEWIN | G.NODIR)]


def enc(x, b):
    return x.encode('latin-1') if b else x


def guarded(res, inp, what, fn, allow=()):
    """Call fn; anything but a documented exception is a violation. Returns ('ok', value) or ('exc', name)."""
    try:
        return ('ok', fn())
    except allow as e:
        res.outcomes.add('documented:' + type(e).__name__)
        return ('exc', type(e).__name__)
    except RecursionError:
        res.add_violation(ID, run.viol('recursion', dict(inp, call=what), 'bounded nesting does not overflow', 'RecursionError'))
        return ('exc', 'RecursionError')
    except Exception as e:  # noqa: BLE001
        res.add_violation(ID, run.viol('crash', dict(inp, call=what), 'success or a documented error',
                                       {'exc': type(e).__name__, 'msg': str(e)[:100]}))
        return ('exc', type(e).__name__)


def check_pattern(p, res, root, modes=('fn', 'glob'), is_bytes=False, light=False, only=None):
    pp = enc(p, is_bytes)
    for mode in modes:
        mod = G if mode == 'glob' else F
        flagsets = GL_FLAGS if mode == 'glob' else FN_FLAGS
        if light:
            flagsets = flagsets[:1] if light == 2 else flagsets[:3]
        if only:
            flagsets = [f for f in flagsets if f[0] in only]
        for fname, fl in flagsets:
            res.n['evaluations'] += 1
            inp = {'mode': mode, 'pattern': pp, 'flags': fname}
            raw = 'R' in fname
            allow = (SyntaxError, LookupError) if raw else ()
            kw = {'root_dir': enc(root, is_bytes)} if 'P' in fname else {}
            t = guarded(res, inp, 'translate', lambda: mod.translate(pp, flags=fl), allow)
            c = guarded(res, inp, 'compile', lambda: mod.compile(pp, flags=fl), allow)
            if t[0] != c[0]:
                res.add_violation(ID, run.viol('translate-compile-disagree', inp, c, t if t[0] == 'exc' else 'ok'))
                continue
            if t[0] != 'ok':
                continue
            pos, neg = t[1]
            cre = []
            bad = False
            for r in list(pos) + list(neg):
                try:
                    cre.append(re.compile(r))
                except (re.error, RecursionError) as e:
                    bad = True
                    res.add_violation(ID, run.viol('invalid-regex', inp, 'every translate() regex compiles',
                                                   {'regex': r, 'error': str(e)[:80]}))
                    break
            if bad:
                continue
            res.n['distinct_nontrivial'] += 1
            match = mod.globmatch if mode == 'glob' else mod.fnmatch
            filt = mod.globfilter if mode == 'glob' else mod.filter
            for n in NAMES:
                nn = enc(n, is_bytes)
                m1 = guarded(res, dict(inp, name=nn), 'match', lambda: match(nn, pp, flags=fl, **kw), allow)
                m2 = guarded(res, dict(inp, name=nn), 'compiled.match', lambda: c[1].match(nn, **kw) if kw else c[1].match(nn), allow)
                m3 = guarded(res, dict(inp, name=nn), 'filter', lambda: bool(filt([nn], pp, flags=fl, **kw)), allow)
                if not (m1 == m2 == m3):
                    res.add_violation(ID, run.viol('entry-points-disagree', dict(inp, name=nn), 'equal', [m1, m2, m3]))
                if m1[0] == 'ok' and 'P' not in fname:
                    tm = any(r.fullmatch(nn) for r in cre[:len(pos)]) and not any(r.fullmatch(nn) for r in cre[len(pos):])
                    if bool(tm) != bool(m1[1]):
                        res.add_violation(ID, run.viol('translate-vs-match', dict(inp, name=nn), {'match': m1[1]}, {'translate_regexes': bool(tm)}))
            guarded(res, inp, 'is_magic', lambda: mod.is_magic(pp, flags=fl))
            res.outcomes.add('ok')
        guarded(res, {'mode': mode, 'pattern': pp}, 'escape', lambda: mod.escape(pp))


def check_walkers(p, res, root, is_bytes=False):
    """_GlobSplit and the walkers: glob / iglob / Path.glob / rglob / WcMatch on a small real tree."""
    pp = enc(p, is_bytes)
    r = enc(root, is_bytes)
    # an absolute piece would walk the machine's real root directory: keep the walkers inside the scratch tree
    rooted = re.search(r'(^|[|{,!(])/', p) is not None
    enc_slash = re.search(r'\\(x2[fF]|0?57|u002[fF]|U0000002[fF]|N\{SOLIDUS\})', p) is not None
    for fname, fl in (GL_FLAGS[0], GL_FLAGS[2], GL_FLAGS[3], GL_FLAGS[6], GL_FLAGS[10]):
        if rooted:
            break
        if enc_slash and 'R' in fname:
            continue    # with RAWCHARS an encoded `/` is a separator too: the piece may be absolute
        res.n['evaluations'] += 1
        inp = {'mode': 'glob()', 'pattern': pp, 'flags': fname}
        allow = (SyntaxError, LookupError) if 'R' in fname else ()
        a = guarded(res, inp, 'glob', lambda: G.glob(pp, flags=fl, root_dir=r), allow)
        b = guarded(res, inp, 'iglob', lambda: list(G.iglob(pp, flags=fl, root_dir=r)), allow)
        if a != b:
            res.add_violation(ID, run.viol('entry-points-disagree', inp, a if a[0] == 'exc' else 'list', b if b[0] == 'exc' else 'list'))
        if not is_bytes:
            absolute = '/' in p     # an absolute piece may arise only from a written '/'
            guarded(res, dict(inp, mode='Path.glob'), 'Path.glob', lambda: list(WP.Path(root).glob(p, flags=fl)),
                    allow + ((ValueError,) if absolute else ()))
            guarded(res, dict(inp, mode='Path.rglob'), 'Path.rglob', lambda: list(WP.Path(root).rglob(p, flags=fl)),
                    allow + ((ValueError,) if absolute else ()))
            guarded(res, dict(inp, mode='PurePath.match'), 'PurePath.match', lambda: WP.PurePosixPath('a/a').match(p, flags=fl),
                    allow)
    for wn, wf in (('RV|E', WM.RECURSIVE | WM.EXTMATCH), ('RV|FP|DP|G|E|B', WM.RECURSIVE | WM.FILEPATHNAME | WM.DIRPATHNAME | WM.GLOBSTAR | WM.EXTMATCH | WM.BRACE),
                   ('RV|M|X|FP', WM.RECURSIVE | WM.MINUSNEGATE | WM.MATCHBASE | WM.FILEPATHNAME),
                   ('RV|X', WM.RECURSIVE | WM.MATCHBASE), ('RV|X|DP', WM.RECURSIVE | WM.MATCHBASE | WM.DIRPATHNAME)):
        res.n['evaluations'] += 1
        inp = {'mode': 'WcMatch', 'pattern': pp, 'flags': wn}
        guarded(res, inp, 'WcMatch', lambda: WM.WcMatch(r, pp, pp, flags=wf).match())


TILDE_PATS = ('~\x00', '~\x00/a', '~\xff', '~\xe9x', '~nosuchuser', '~/', '~', '~\n', '~a\x00b/*', '~*', '~[a]', 'a~', '~\\')


def check_tilde(res, root, only=None):
    """GLOBTILDE hands the text after `~` to the operating system's user lookup."""
    T = G.GLOBTILDE | G.GLOBSTAR | G.EXTGLOB
    for p in TILDE_PATS:
        for isb in (False, True):
            pp = enc(p, isb)
            if only is not None and pp != only:
                continue
            res.n['evaluations'] += 1
            res.n['distinct_nontrivial'] += 1
            inp = {'mode': 'glob~', 'pattern': pp, 'flags': 'GET'}
            guarded(res, inp, 'translate', lambda: G.translate(pp, flags=T))
            guarded(res, inp, 'compile', lambda: G.compile(pp, flags=T))
            guarded(res, inp, 'glob', lambda: G.glob(pp, flags=T, root_dir=enc(root, isb)))
            guarded(res, dict(inp, name=enc('a', isb)), 'match', lambda: G.globmatch(enc('a', isb), pp, flags=T | G.REALPATH, root_dir=enc(root, isb)))
            if not isb:
                guarded(res, dict(inp, mode='Path.glob~'), 'Path.glob', lambda: list(WP.Path(root).glob(p, flags=T)), (ValueError,))
    res.samples.append({'tilde': '~\x00'})


def make_tree():
    root = tempfile.mkdtemp(prefix='vfc10_', dir=bind.scratch_base())
    for d in ('a', 'a/a', '!('):
        os.makedirs(os.path.join(root, d), exist_ok=True)
    for f in ('a/a/a', 'a/b', '[', 'a]', '@(a'):
        open(os.path.join(root, f), 'w').close()
    return root


# ---------------------------------------------------------------- malformed constructs: literal meaning as in Bash

MALFORMED = [  # (pattern, explicitly escaped literal spelling)   - fnmatch mode, EXTMATCH
    ('[', '\\['), ('[a', '\\[a'), ('a[', 'a\\['), ('[]', '\\[\\]'), ('[!', '\\[\\!'), ('[!]', '\\[\\!\\]'), ('[]a', '\\[\\]a'),
    ('@(a', '@\\(a'), ('?(a', '?\\(a'), ('a)', 'a\\)'), (')', '\\)'), ('a(', 'a\\('), ('a@(', 'a@\\('), ('[a-', '\\[a-'),
    ('a[b', 'a\\[b'), ('[[', '\\[\\['), ('@(a|b', '@\\(a\\|b'), ('[a/', '\\[a/'), ('!(a', '\\!\\(a'), ('+(', '+\\('),
]
MALFORMED_NOSPLIT = [('a|b', 'a\\|b'), ('|', '\\|'), ('a|', 'a\\|')]
EMPTY_LANG = ['[b-a]', 'x[b-a]', '[b-a]x']           # a lone reversed range matches nothing
ANYCHAR = [('[!b-a]', '?'), ('[^b-a]', '?'), ('x[!9-0]', 'x?'), ('[!b-a9-0]', '?'), ('@([!b-a])', '@(?)')]   # negated: any one character
# a hyphen before a POSIX class is a literal and the class ends nothing: what follows is an ordinary member
ANYCHAR += [('[a-[:digit:]%s]' % ch, '[a\\-[:digit:]\\%s]' % ch) for ch in '!+,*#$%&\'()./:;<=>?@^_`{|}~ bz']
BASH_PATS = ['[', '[a', 'a[', '[]', '[!', '[!]', '@(a', 'a)', ')', 'a(', '[b-a]', 'x[b-a]', '[]a]', 'a|b', '|', '[[', '[a-', '[]a',
             '@(a|b)', '?(a)b', '*(a)', '+(a|b)', '[!a]', '[a-b]', 'a*', '*a', '?', '\\[', '\\*', '[\\]]', '!(a)', '!(a|b)b']
BASH_NAME_ALPHA = 'ab[]()|!@'


def check_malformed(res):
    for fname, fl in (('E', F.EXTMATCH), ('ED', F.EXTMATCH | F.DOTMATCH), ('', 0), ('EI', F.EXTMATCH | F.IGNORECASE)):
        for p, q in MALFORMED + MALFORMED_NOSPLIT:
            for mode, mod in (('fn', F), ('glob', G)):
                if mode == 'glob' and '/' in p:
                    continue
                res.n['evaluations'] += 1
                inp = {'mode': mode, 'pattern': p, 'escaped_spelling': q, 'flags': fname}
                try:
                    c = langcmp.equal(mod.compile(p, flags=fl), mod.compile(q, flags=fl), False)
                except Exception as e:  # noqa: BLE001
                    res.add_violation(ID, run.viol('crash', dict(inp, call='compile'), 'compiles', {'exc': type(e).__name__}))
                    continue
                res.n['states'] += c.states
                res.n['distinct_nontrivial'] += 1
                res.outcomes.add('literal-meaning' if c.witness is None else 'not-literal')
                if c.witness is not None:
                    res.add_violation(ID, run.viol('malformed-not-literal', dict(inp, name=c.witness), {'match': c.accs[1]}, {'match': c.accs[0]}))
        for p, q in ANYCHAR:
            for isb in (False, True):
                res.n['evaluations'] += 1
                inp = {'mode': 'fn', 'pattern': enc(p, isb), 'escaped_spelling': q, 'flags': fname}
                try:
                    c = langcmp.equal(F.compile(enc(p, isb), flags=fl | F.DOTMATCH), F.compile(enc(q, isb), flags=fl | F.DOTMATCH), isb)
                except Exception as e:  # noqa: BLE001
                    res.add_violation(ID, run.viol('crash', dict(inp, call='compile'), 'compiles', {'exc': type(e).__name__, 'msg': str(e)[:80]}))
                    continue
                res.n['distinct_nontrivial'] += 1
                if c.witness is not None:
                    res.add_violation(ID, run.viol('malformed-not-literal', dict(inp, name=c.witness), {'match': c.accs[1]}, {'match': c.accs[0]}))
        for p in EMPTY_LANG:
            res.n['evaluations'] += 1
            inp = {'mode': 'fn', 'pattern': p, 'flags': fname}
            m = F.compile(p, flags=fl)
            from wcmatch import _wcmatch
            c = langcmp.equal(m, _wcmatch.WcRegexp(()), False)
            if c.witness is not None:
                res.add_violation(ID, run.viol('reversed-range-matches', dict(inp, name=c.witness), {'match': False}, {'match': True}))
    # Bash
    if bashref.available():
        names = [''.join(t) for L in (1, 2, 3) for t in itertools.product(BASH_NAME_ALPHA, repeat=L)]
        rows = bashref.bash_match(BASH_PATS, names)
        for p, row in zip(BASH_PATS, rows):
            m = F.compile(p, flags=F.EXTMATCH | F.DOTMATCH)
            for n, bit in zip(names, row):
                res.n['evaluations'] += 1
                got = m.match(n)
                if got != (bit == '1'):
                    res.add_violation(ID, run.viol('bash-disagrees', {'mode': 'fn', 'pattern': p, 'flags': 'ED', 'name': n},
                                                   {'bash [[ ]]': bit == '1'}, {'match': got}))
                    break
            else:
                res.outcomes.add('bash-agrees')
        res.n['bash_names'] += len(names)
    res.samples.append({'malformed': '@(a|b', 'means': '@\\(a\\|b'})


RR_ITEMS = ['a', '^', '!', 'x', '[:digit:]', '.', '\\]', 'c-e', '|', '#', '~']


def _rr_ref(item):
    return item if len(item) > 1 else '\\' + item


def check_reversed_ranges(res, part, parts, maxitems):
    """A reversed range inside a bracket expression contributes nothing: `[<pre>z-y<post>]` has the language of the
    bracket without it, whatever the neighbours are (in particular a `^` or `!` that thereby moves to the front stays a
    literal).  Every item sequence up to `maxitems`, every insertion point, plain and negated, str and bytes; decided for
    all names by the product of the two executed automata."""
    k = 0
    for n in range(1, maxitems + 1):
        for items in itertools.product(RR_ITEMS, repeat=n):
            for neg in ('', '!', '^'):
                for pos in range(n + 1):
                    if not neg and pos and items[0] in ('!', '^'):
                        continue    # the tested text itself would start with the negation character
                    k += 1
                    if k % parts != part:
                        continue
                    tested = '[' + neg + ''.join(items[:pos]) + 'z-y' + ''.join(items[pos:]) + ']'
                    ref = '[' + neg + ''.join(_rr_ref(it) for it in items) + ']'
                    for isb in (False, True):
                        res.n['evaluations'] += 1
                        inp = {'mode': 'fn', 'pattern': enc(tested, isb), 'without_reversed_range': enc(ref, isb), 'flags': 'ED'}
                        try:
                            c = langcmp.equal(F.compile(enc(tested, isb), flags=F.EXTMATCH | F.DOTMATCH),
                                              F.compile(enc(ref, isb), flags=F.EXTMATCH | F.DOTMATCH), isb)
                        except Exception as e:  # noqa: BLE001
                            res.add_violation(ID, run.viol('crash', dict(inp, call='compile', escaped_spelling=ref), 'compiles',
                                                           {'exc': type(e).__name__, 'msg': str(e)[:80]}))
                            continue
                        res.n['states'] += c.states
                        res.n['transitions'] += c.transitions
                        res.n['distinct_nontrivial'] += 1
                        res.outcomes.add('reversed-range-empty' if c.witness is None else 'reversed-range-not-empty')
                        if c.witness is not None:
                            res.add_violation(ID, run.viol('reversed-range-not-empty', dict(inp, name=c.witness),
                                                           {'match': c.accs[1]}, {'match': c.accs[0]}))
    res.samples.append({'reversed_range': '[z-y^a]', 'means': '[\\^\\a]'})


# ---------------------------------------------------------------- generators

# escape shapes for RAWCHARS (complete, incomplete, out of range, unknown names, decoding to metacharacters)
RAW_ITEMS = ['\\777', '\\400', '\\377', '\\0', '\\8', '\\x', '\\x4', '\\x41', '\\xzz', '\\u', '\\u004', '\\u0041', '\\U0000004',
             '\\U00000041', '\\U00110000', '\\UFFFFFFFF', '\\N', '\\N{', '\\N{}', '\\N{LATIN SMALL LETTER A}', '\\N{latin small letter a}',
             '\\N{NO SUCH}', '\\a', '\\\\', '\\\\x41', '\\x5c', '\\x2f', '\\57', '\\x5b', '\\x5d', '\\x7c', '\\x28', '\\x29', '\\x21',
             '\\x7b', '\\x2a', '\\x2d', '\\x00', '\\xff', '\\ud800']
RAW_TEMPLATES = ['%s', 'a%s', '%sa', '[%s]', '[!%s]', '@(%s)', '%s/a', 'a/%s', '[a-%s]', '[%s-z]', '{%s,a}', '%s|a', '!(%s)', '[[:alpha:]%s]',
                 '%s%s']
REGEXY = ['[\\/]', '[a\\/]', '[!\\/]', '[\\/', '(', ')', '+', 'se[rver', 'sh(are', 'a+', 'b|c', '(?#)', '(?:', '(?i)', '\\Z', '$', '^', '{1,2}', '(?P<n>', '#', '(?=', '\\b', '&&', '~~', '||', '--', '[:alpha:]', '[.a.]',
          '[=a=]', '\\', ']', '[', '-]', '^]', '!]', '\\]']
TEMPLATES = ['[%s]', '[!%s]', 'a%s', '%s*', '@(%s)', '[a%s', '%s]', '[[:alpha:]%s]', '!(%s)', '{%s,a}', '[%sa-b]', '[a-%s]',
             '//%s/b/*', '//a/%s/*', '//?/%s/*', '//?/UNC/%s/b/*', 'c:/%s', '//h/s%s/x']


def mutations():
    """Delete / duplicate / swap one token of every valid generated pattern with at most 3 tokens (flat text tokens)."""
    from . import c01, c02
    seen = set()
    core, full = c01.menus()
    top, topx, inner = c02.menus()
    for lv, inn in ((core, None), (top, inner)):
        for b in (1, 2, 3):
            for seq in pat.gen(b, lv, ext=True, depth=1, max_alts=2, inner=inn):
                text = pat.render(seq)
                toks = re.findall(r'\\.|\[[^\]]*\]|[?*+@!]\(|.', text)
                for i in range(len(toks)):
                    for m in (toks[:i] + toks[i + 1:], toks[:i] + [toks[i]] + toks[i:], toks[:i] + toks[i + 1:i + 2] + [toks[i]] + toks[i + 2:]):
                        s = ''.join(m)
                        if s and s not in seen:
                            seen.add(s)
                            yield s


def plan(tier, seed):
    chunks = []
    l12, l21, l12b = (5, 3, 4) if tier == 'quick' else (6, 4, 5)
    for a in ALPHA12:
        for b in ALPHA12:
            chunks.append(('strings', ALPHA12, a + b, l12, False, tier == 'quick'))
    chunks.append(('short', ALPHA12, 2, False))
    for a in ALPHA21:
        chunks.append(('strings', ALPHA21, a, l21, False))
    for a in ALPHA12:
        chunks.append(('strings', ALPHA12, a, l12b, True))
    for sh in range(16):
        chunks.append(('mutations', sh, 16))
    chunks.append(('regexy',))
    chunks.append(('tilde',))
    for part in range(4):
        chunks.append(('rawesc', part, 4))
    chunks.append(('malformed',))
    for part in range(8):
        chunks.append(('revrange', part, 8, 3 if tier == 'quick' else 4))
    for a in ALPHA12:
        chunks.append(('walkers', ALPHA12, a, 3 if tier == 'quick' else 4))
    return {
        'chunks': chunks,
        'coverage': {'alphabet12': ALPHA12, 'max_len12': l12, 'alphabet21': ALPHA21, 'max_len21': l21, 'bytes_max_len': l12b,
                     'strings12': sum(12 ** k for k in range(1, l12 + 1)), 'strings21': sum(21 ** k for k in range(1, l21 + 1)),
                     'fn_flagsets': [f for f, _ in FN_FLAGS], 'glob_flagsets': [f for f, _ in GL_FLAGS],
                     'regex_significant_substrings': REGEXY, 'templates': TEMPLATES, 'malformed_catalogue': [p for p, _ in MALFORMED],
                     'bash_patterns': BASH_PATS, 'exhaustive': True},
        'rule': 'every string up to the stated length over the two alphabets (str; bytes up to a shorter length) x flag families '
                'x entry points; every single-token deletion / duplication / swap of every generated pattern with <= 3 tokens; '
                'every regex-significant substring in every template; walkers on a small real tree for all strings up to a '
                'shorter length; non-trivial = (string, flags) pairs for which translate and compile succeeded and all regexes '
                'compiled',
        'assumptions': ['documented exceptions: PatternLimitException (never expected here), SyntaxError/LookupError only with '
                        'RAWCHARS, ValueError from pathlib only when the pattern contains a separator, TypeError never (types '
                        'are kept consistent)'],
        'nontrivial_floor': 1000,
    }


def run_chunk(chunk):
    res = run.ChunkResult()
    kind = chunk[0]
    root = make_tree()
    try:
        if kind == 'strings':
            _k, alpha, pre, maxlen, is_bytes = chunk[:5]
            tier_quick = chunk[5] if len(chunk) > 5 else False
            for L in range(max(len(pre), 1), maxlen + 1):
                if L < len(pre):
                    continue
                for tup in itertools.product(alpha, repeat=L - len(pre)):
                    check_pattern(pre + ''.join(tup), res, root, is_bytes=is_bytes, light=(2 if tier_quick and L >= 5 else (L >= 5 and alpha is ALPHA12) or is_bytes))
            res.samples.append({'pattern': pre + alpha[3] * (maxlen - len(pre)), 'bytes': is_bytes})
        elif kind == 'short':
            _k, alpha, maxlen, is_bytes = chunk
            for tup in itertools.product(alpha, repeat=1):
                check_pattern(''.join(tup), res, root)
            # bytes under the flag sets the (lighter) bytes string layers do not reach
            for L in (1, 2):
                for tup in itertools.product(alpha, repeat=L):
                    check_pattern(''.join(tup), res, root, is_bytes=True, only=('GEWO', 'GEW', 'GEOK', 'GENP', 'GEWC', 'GEDZ', 'LEX', 'EW', 'ENMA'))
        elif kind == 'mutations':
            _k, sh, ns = chunk
            for i, s in enumerate(mutations()):
                if i % ns == sh:
                    check_pattern(s, res, root, light=True)
            res.samples.append({'mutation_of': '@(a|b)', 'gives': '@(a|b'})
        elif kind == 'regexy':
            for t in TEMPLATES:
                for r in REGEXY:
                    check_pattern(t % r, res, root)
                    check_pattern(t % r, res, root, is_bytes=True, light=True)
                    check_walkers(t % r, res, root)
            res.samples.append({'pattern': '[(?#)]'})
        elif kind == 'tilde':
            check_tilde(res, root)
        elif kind == 'rawesc':
            k = 0
            for t in RAW_TEMPLATES:
                for r in RAW_ITEMS:
                    k += 1
                    if k % chunk[2] != chunk[1]:
                        continue
                    p = t.replace('%s', r)
                    for isb in (False, True):
                        check_pattern(p, res, root, is_bytes=isb, only=('ER', 'GER', 'E', 'GE', 'EW', 'GEW'))
                    check_walkers(p, res, root)
                    check_walkers(p, res, root, is_bytes=True)
            res.samples.append({'raw_escape': '[\\400-z]'})
        elif kind == 'malformed':
            check_malformed(res)
        elif kind == 'revrange':
            check_reversed_ranges(res, chunk[1], chunk[2], chunk[3])
        elif kind == 'walkers':
            _k, alpha, pre, maxlen = chunk
            for L in range(1, maxlen + 1):
                for tup in itertools.product(alpha, repeat=L - 1):
                    s = pre + ''.join(tup)
                    check_walkers(s, res, root)
                    if L <= 2:
                        check_walkers(s, res, root, is_bytes=True)
            res.samples.append({'walker_pattern': pre + '(/'})
    finally:
        shutil.rmtree(root, ignore_errors=True)
    impl.clear()
    return res


def replay(v):
    inp = v['input']
    r = run.ChunkResult()
    k = v['kind']
    if k == 'crash' and inp.get('call') == 'compile' and 'escaped_spelling' in inp:
        try:
            F.compile(inp['pattern'], flags=F.EXTMATCH | F.DOTMATCH)
            return {'violates': False, 'observed': 'compiles'}
        except Exception as e:  # noqa: BLE001
            return {'violates': True, 'observed': type(e).__name__}
    if k in ('malformed-not-literal', 'reversed-range-matches', 'bash-disagrees', 'reversed-range-not-empty'):
        mod = G if inp['mode'] == 'glob' else F
        fl = 0
        for ch in inp['flags']:
            fl |= {'E': F.EXTMATCH, 'D': F.DOTMATCH, 'I': F.IGNORECASE}[ch]
        got = mod.compile(inp['pattern'], flags=fl).match(inp['name'])
        want = v['expected'].get('match', v['expected'].get('bash [[ ]]'))
        return {'violates': got != want, 'observed': {'match': got}}
    root = make_tree()
    try:
        p = inp['pattern']
        isb = isinstance(p, bytes)
        ps = p.decode('latin-1') if isb else p
        if inp['mode'].endswith('~'):
            check_tilde(r, root, only=p)
        elif inp['mode'] in ('fn', 'glob'):
            check_pattern(ps, r, root, modes=(inp['mode'],), is_bytes=isb)
        else:
            check_walkers(ps, r, root, is_bytes=isb)
    finally:
        shutil.rmtree(root, ignore_errors=True)
    hit = [x for x in r.viol + list(r.known_ex.values()) if x['kind'] == k and x['input'] == run.jsonable(inp)]
    return {'violates': bool(hit), 'observed': hit[0]['observed'] if hit else 'ok'}
