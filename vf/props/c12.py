"""C12 - glob results are well-formed and independent of how the root is given.

FSX exploration: in every state, for every pattern (relative, absolute, with ./ ../ duplicate and trailing separators,
small BRACE/SPLIT/NEGATE lists) x flag set: every returned element exists (lexists), is spelled relative/absolute
like its pattern, carries a trailing separator exactly under the stated conditions, is no directory under NODIR;
iglob yields glob's list; the result is the same multiset for root_dir as str / bytes / pathlib.Path, dir_fd and cwd.
"""
import collections
import os
import pathlib

from .. import bind, run, fsx, fspat, fscommon, refglob
from wcmatch import glob as G

ID = 'C12'
LEVEL = 'exploration'
REPLAY_DEADLINE = 120
HISTORY_REPLAY = True
MAXTASKS = 1

FLAGSETS = ['GE', 'GEK', 'GEO', 'GDEK', 'GEY', 'GEX', 'GEKO', 'E', 'GDEYK', 'GEBS']
LISTS = [(['a', 'a/*'], 'GE'), (['*/', 'a/'], 'GEK'), (['{a,b}', '.h'], 'GEB'), (['a|*/a'], 'GES'), (['*', '!a'], 'GEN'),
         (['**', '!*/'], 'GENO'), (['{a,b,.h}'], 'GEBO'), (['a|b|.h'], 'GESO'), (['a', 'b'], 'GEO'),
         (['a', '*/a'], 'GE'), (['*', '*/*'], 'GEK'), (['a/*', '**/b'], 'GE'),
         # exclusions only: NEGATEALL supplies the inclusion, the other flags still hold for it
         (['!a'], 'GENAO'), (['!*/a', '!.h'], 'GENAOK'), (['!zz'], 'ENAO'), (['!a'], 'GENAK'), (['-a'], 'GENMAO')]


def is_abs_list(p):
    return [x.startswith('/') for x in (p if isinstance(p, list) else [p])]


def wellformed(model, root, pats, fs, got, res, inp):
    fl = fs
    plist = pats if isinstance(pats, list) else [pats]
    if 'S' in fs:
        plist = [x for p in plist for x in p.split('|')]
    absf = [p.startswith('/') for p in plist if not p.startswith('!')]
    all_rel = not any(absf)
    all_abs = all(absf) and bool(absf)
    trail = [p.endswith('/') for p in plist if not p.startswith('!')]
    all_trail = all(trail) and bool(trail)
    bad = []
    for g in got:
        isabs = g.startswith('/')
        rel = os.path.relpath(g, root) if isabs else g
        if isabs and not (g == root or g.startswith(root + '/')):
            # an absolute result outside the scratch root can only come from an absolute pattern naming it
            rel = None
        if all_rel and isabs:
            bad.append(('absolute-result-for-relative-pattern', g))
            continue
        if all_abs and not isabs:
            bad.append(('relative-result-for-absolute-pattern', g))
            continue
        if rel is None:
            continue
        try:
            lk = model.lkind(rel)
            isd = model.isdir(rel)
        except fsx.Unknown:
            continue
        if lk is None:
            bad.append(('does-not-exist', g))
            continue
        ends = g.endswith('/')
        if ends and not isd:
            bad.append(('separator-on-non-directory', g))
        if isd and not ends and ('K' in fl or all_trail):
            bad.append(('directory-without-separator', g))
        if 'O' in fl and isd:
            bad.append(('directory-under-NODIR', g))
    for kind, g in bad[:3]:
        res.add_violation(ID, run.viol(kind, dict(inp, element=res._anon(g)), 'well-formed element',
                                       {'result': res._anon(got[:30])}))
    return not bad


def roots(sc, fd):
    return [('root_dir-str', {'root_dir': sc.root}), ('root_dir-bytes', {'root_dir': os.fsencode(sc.root)}),
            ('root_dir-Path', {'root_dir': pathlib.Path(sc.root)}), ('dir_fd', {'dir_fd': fd}), ('cwd', {})]


def check_state(desc, sc, pats, res, thin):
    state = fsx.from_desc(desc)
    sc.load(state)
    model = fsx.Model(state)
    res.n['fs_states_evaluated'] += 1
    cwd = os.getcwd()
    fd = os.open(sc.root, os.O_RDONLY | os.O_DIRECTORY)
    try:
        os.chdir(sc.root)
        items = []
        for fi, fs in enumerate(FLAGSETS):
            for pi, (text, ast, tags) in enumerate(pats):
                if thin and (pi + fi) % thin:
                    continue
                items.append((text, fs))
                if pi % 7 == 0:
                    items.append((G.escape(sc.root) + '/' + text, fs))
        for pl, fs in LISTS:
            items.append((pl, fs))
            items.append(([G.escape(sc.root) + '/' + p if not p.startswith('!') else p for p in pl], fs))
            # an absolute pattern followed by a relative one in the same call
            if len(pl) > 1 and not pl[1].startswith('!'):
                items.append(([G.escape(sc.root) + '/' + pl[0], pl[1]], fs))
        def anon(x):
            # the scratch directory name is random: records carry <ROOT> instead
            if isinstance(x, str):
                return x.replace(sc.root, '<ROOT>')
            if isinstance(x, list):
                return [anon(i) for i in x]
            if isinstance(x, dict):
                return {k: anon(v) for k, v in x.items()}
            return x

        res._anon = anon
        for p, fs in items:
            flg = fscommon.gflags(fs)
            inp = {'tree': desc, 'patterns': anon(p), 'flags': fs}
            res.n['evaluations'] += 1
            base = None
            for rname, kw in roots(sc, fd):
                isb = rname == 'root_dir-bytes'
                pp = ([os.fsencode(x) for x in p] if isinstance(p, list) else os.fsencode(p)) if isb else p
                try:
                    with fsx.ScandirMonitor(3000):
                        got = G.glob(pp, flags=flg, **kw)
                        got2 = list(G.iglob(pp, flags=flg, **kw))
                except fsx.Horizon:
                    res.add_violation(ID, run.viol('no-termination', dict(inp, root=rname), 'terminates', 'horizon'))
                    break
                except Exception as e:  # noqa: BLE001
                    res.add_violation(ID, run.viol('raises', dict(inp, root=rname), 'a list', {'exc': type(e).__name__, 'msg': str(e)[:80]}))
                    break
                if isb:
                    got = [os.fsdecode(x) for x in got]
                    got2 = [os.fsdecode(x) for x in got2]
                if got != got2:
                    res.add_violation(ID, run.viol('iglob-differs', dict(inp, root=rname), anon(got[:30]), anon(got2[:30])))
                if base is None:
                    base = got
                    if got:
                        res.n['distinct_nontrivial'] += 1
                    ok = wellformed(model, sc.root, p, fs, got, res, dict(inp, root=rname))
                    res.outcomes.add('wellformed' if ok else 'malformed')
                elif collections.Counter(got) != collections.Counter(base):
                    res.outcomes.add('root-differs')
                    res.add_violation(ID, run.viol('root-dependence', dict(inp, root=rname),
                                                   {'root_dir-str': anon(sorted(base)[:30])}, {rname: anon(sorted(got)[:30])}))
                else:
                    res.outcomes.add('root-agrees')
    finally:
        os.chdir(cwd)
        os.close(fd)


def plan(tier, seed):
    st_chunks, cov = fscommon.state_chunks(tier, seed, extra_roots=fscommon.SEED_STATES, per_chunk=4)
    thin = 9 if tier == 'quick' else 2
    chunks = [('std', c, thin) for c in st_chunks]
    chunks.append(('fd0', [], 0))
    cov['patterns'] = len(fspat.pattern_set('quick'))
    cov['pattern_thinning'] = 'per flag set every %d-th pattern, offset rotating with the flag set' % thin
    cov['flagsets'] = FLAGSETS
    cov['lists'] = [l[0] for l in LISTS]
    cov['roots'] = ['root_dir str', 'root_dir bytes', 'root_dir pathlib.Path', 'dir_fd', 'cwd']
    cov['exhaustive'] = True
    return {
        'chunks': chunks,
        'coverage': cov,
        'rule': 'every explored file-system state x FS patterns (relative, with ./ ../ // and trailing /, every 7th also as '
                'absolute pattern) and BRACE/SPLIT/NEGATE lists (relative, absolute, absolute-then-relative) x flag sets '
                'over MARK, NODIR, GLOBSTAR, DOTGLOB, SCANDOTDIR, MATCHBASE, BRACE, SPLIT, NEGATE x five ways of giving the '
                'root; non-trivial = evaluations with a non-empty result',
        'assumptions': ['existence and directory-ness are read from the state model (cross-checked against the kernel in C05)'],
        'nontrivial_floor': 500,
    }


FD0_TREE = ['a', 'd/', 'd/x', '.h']
FD0_PATS = ['a', '[a]', 'd/x', 'd/*', '*', 'zz', 'd', 'd/', '.h']


def check_fd0(res):
    """Descriptor number 0 is a directory descriptor like any other: the same results as through the path."""
    sc = fsx.Scratch()
    saved = os.dup(0)
    try:
        sc.load(fsx.from_desc(FD0_TREE))
        fd = os.open(sc.root, os.O_RDONLY | os.O_DIRECTORY)
        os.dup2(fd, 0)
        os.close(fd)
        for p in FD0_PATS:
            for fs in ('GE', 'GEK', 'GDE'):
                res.n['evaluations'] += 1
                res.n['distinct_nontrivial'] += 1
                a = sorted(G.glob(p, flags=fscommon.gflags(fs), root_dir=sc.root))
                b = sorted(G.glob(p, flags=fscommon.gflags(fs), dir_fd=0))
                res.outcomes.add('fd0-equal' if a == b else 'fd0-differs')
                if a != b:
                    res.add_violation(ID, run.viol('descriptor-zero', {'tree': FD0_TREE, 'patterns': p, 'flags': fs}, a, b))
    finally:
        os.dup2(saved, 0)
        os.close(saved)
        sc.close()


BYTES_NAMES = [b'caf\xe9', b'd\xff/x', b'd\xff/s/y', b'a', b'k/']
BYTES_PATS = [b'*', b'caf\xe9', b'caf*', b'd\xff/*', b'*/x', b'**', b'd\xff/**', b'*/**', b'*/', b'd*/s/', b'k/**']


BYTES_EXPECT = {b'caf\xe9': [b'caf\xe9'], b'd\xff/*': [b'd\xff/s', b'd\xff/x'], b'*/x': [b'd\xff/x'], b'd*/s/': [b'd\xff/s/'],
                b'caf*': [b'caf\xe9'], b'*': [b'a', b'caf\xe9', b'd\xff', b'k']}


def check_bytes_roots(res):
    """Names that are not valid UTF-8, bytes patterns: the three ways of giving the root return the same well-formed paths
    (every result names an existing entry, one trailing separator exactly under MARK / a trailing-slash pattern)."""
    import tempfile
    import shutil
    root = tempfile.mkdtemp(prefix='vfc12b_', dir=bind.scratch_base())
    broot = os.fsencode(root)
    cwd = os.getcwd()
    try:
        for n in BYTES_NAMES:
            full = os.path.join(broot, n)
            if n.endswith(b'/'):
                os.makedirs(full, exist_ok=True)
            else:
                os.makedirs(os.path.dirname(full), exist_ok=True)
                open(full, 'w').close()
        fd = os.open(root, os.O_RDONLY | os.O_DIRECTORY)
        try:
            for p in BYTES_PATS:
                for fs in ('GE', 'GEK', 'GEO', 'GDE'):
                    res.n['evaluations'] += 1
                    res.n['distinct_nontrivial'] += 1
                    fl = fscommon.gflags(fs)
                    a = sorted(G.glob(p, flags=fl, root_dir=broot))
                    b = sorted(G.glob(p, flags=fl, dir_fd=fd))
                    os.chdir(root)
                    try:
                        c = sorted(G.glob(p, flags=fl))
                    finally:
                        os.chdir(cwd)
                    inp = {'tree': [n.decode('latin-1') for n in BYTES_NAMES], 'patterns': p, 'flags': fs, 'layer': 'bytes-roots'}
                    bad = None
                    if not (a == b == c):
                        bad = {'root_dir': a, 'dir_fd': b, 'cwd': c}
                    elif fs == 'GE' and p in BYTES_EXPECT and a != BYTES_EXPECT[p]:
                        bad = {'expected': BYTES_EXPECT[p], 'result': a}
                    else:
                        for x in a:
                            if not os.path.lexists(os.path.join(broot, x)) or x.endswith(b'//') or \
                                    (x.endswith(b'/') and not os.path.isdir(os.path.join(broot, x))) or \
                                    ('K' in fs and os.path.isdir(os.path.join(broot, x)) and not x.endswith(b'/')):
                                bad = {'ill_formed': x, 'result': a}
                                break
                    res.outcomes.add('bytes-roots-ok' if bad is None else 'bytes-roots-bad')
                    if bad is not None:
                        res.add_violation(ID, run.viol('bytes-root-forms', inp, 'equal, well-formed', bad))
        finally:
            os.close(fd)
        # an exclusion that matches nothing changes nothing - in particular not MARK or SCANDOTDIR
        for p in ('*', '*/', '**', '.*', 'k/**'):
            for fs in ('GEK', 'GEY', 'GEKY', 'GE', 'GEO'):
                res.n['evaluations'] += 1
                fl = fscommon.gflags(fs)
                base = sorted(G.glob(p, flags=fl, root_dir=root))
                ex = sorted(G.glob(p, flags=fl, root_dir=root, exclude='zz*'))
                inl = sorted(G.glob([p, '!zz*'], flags=fl | G.NEGATE, root_dir=root))
                if not (base == ex == inl):
                    res.add_violation(ID, run.viol('neutral-exclusion-changes-result', {'tree': [n.decode('latin-1') for n in BYTES_NAMES], 'patterns': p,
                                                                                        'flags': fs, 'layer': 'bytes-roots'},
                                                   [os.fsdecode(os.fsencode(x)) for x in base], {'exclude=': ex, 'inline': inl}))
    finally:
        os.chdir(cwd)
        shutil.rmtree(root, ignore_errors=True)


def run_chunk(chunk):
    kind, descs, thin = chunk
    res = run.ChunkResult()
    if kind == 'fd0':
        check_fd0(res)
        check_bytes_roots(res)
        return res
    sc = fsx.Scratch()
    try:
        pats = fspat.pattern_set('quick')
        for d in descs:
            check_state(d, sc, pats, res, thin)
        res.samples.append({'tree': descs[0], 'pattern': pats[11][0], 'flags': FLAGSETS[1]})
    finally:
        sc.close()
    return res


def replay(v):
    """Re-run the whole state in isolation (the scratch root path is part of absolute patterns, so cases are re-derived)."""
    inp = v['input']
    r = run.ChunkResult()
    if inp.get('layer') == 'bytes-roots':
        check_bytes_roots(r)
        hit = [x for x in r.viol if x['kind'] == v['kind'] and x['input'] == run.jsonable(inp)]
        return {'violates': bool(hit), 'observed': hit[0]['observed'] if hit else 'ok'}
    if v['kind'] == 'descriptor-zero':
        check_fd0(r)
        hit = [x for x in r.viol if x['input'] == run.jsonable(inp)]
        return {'violates': bool(hit), 'observed': hit[0]['observed'] if hit else 'ok'}
    sc = fsx.Scratch()
    try:
        pats = fspat.pattern_set('quick')
        check_state(inp['tree'], sc, pats, r, 1 if isinstance(inp['patterns'], str) else 10 ** 9)
    finally:
        sc.close()

    hit = [x for x in r.viol if x['kind'] == v['kind'] and x['input'] == run.jsonable(inp)]
    return {'violates': bool(hit), 'observed': hit[0]['observed'] if hit else 'ok'}
