"""C17 - case and platform flags select a consistent matching mode.

All checks are (relational) product-automaton explorations over the regexes the library executes:
  table      the language under flags F equals the language under the canonical representative of F
             (CASE wins over IGNORECASE; FORCEWIN+FORCEUNIX cancel; on this platform FORCEUNIX is the default)
  caseclose  in insensitive modes the language is closed under ASCII case change of the name (2-safety product)
  litswap    ... and unchanged by swapping the case of literal pattern text
  sepclose   under FORCEWIN '/' and '\\' in the name are interchangeable (2-safety product)
  winunix    for patterns without backslashes/drives: FORCEWIN(p)(n) <=> FORCEUNIX|IGNORECASE(p)(n[\\ -> /]),
             and FORCEWIN|CASE(p)(n) <=> FORCEUNIX|CASE(p)(n[\\ -> /])
  bslash     an escaped backslash in the pattern is a separator under FORCEWIN
  drive      drive / UNC prefixes match only as literal, case-insensitive prefixes (two inclusions against
             regexes written from the statement)
"""
import re

from .. import bind, run, pat, impl, alphabet, product, sre_aut, langcmp
from wcmatch import glob as G, fnmatch as F, _wcmatch

ID = 'C17'
LEVEL = 'model_checking'

TAB = {'C': F.CASE, 'I': F.IGNORECASE, 'W': F.FORCEWIN, 'U': F.FORCEUNIX, 'E': F.EXTMATCH, 'D': F.DOTMATCH,
       'G': G.GLOBSTAR, 'X': G.MATCHBASE, 'Z': G.NODOTDIR, 'S': F.SPLIT, 'O': G.NODIR}


def flags_of(fs):
    f = 0
    for ch in fs:
        f |= TAB[ch]
    return f


def canonical(fs):
    s = set(fs)
    if 'W' in s and 'U' in s:
        s -= {'W', 'U'}
    if 'C' in s:
        s.discard('I')
    s.discard('U')          # Linux: Unix rules are the default
    return ''.join(sorted(s))


def insensitive(fs):
    c = canonical(fs)
    return 'C' not in c and ('I' in c or 'W' in c)


def comp(mode, text, fs, is_bytes=False):
    mod = G if mode == 'glob' else F
    t = text.encode('latin-1') if is_bytes else text
    return mod.compile(t, flags=flags_of(fs))


def _texts(m):
    w = impl.wcregexp(m)
    return [r.pattern for r in w._include], [r.pattern for r in (w._exclude or ())]


def _note(res, c):
    res.n['states'] += c.states
    res.n['transitions'] += c.transitions
    res.n['traces_validated_against_impl'] += c.traces
    if c.mode == 'fallback':
        res.n['fallback_cases'] += 1


def lang_equal(res, kind, inp, m1, m2, is_bytes=False):
    res.n['evaluations'] += 1
    if _texts(m1) == _texts(m2):
        res.outcomes.add(kind + ':text-equal')
        return
    c = langcmp.equal(m1, m2, is_bytes)
    _note(res, c)
    res.n['distinct_nontrivial'] += 1
    res.outcomes.add(kind + (':lang-equal' if c.witness is None else ':differ'))
    if c.witness is not None:
        res.add_violation(ID, run.viol(kind, dict(inp, name=c.witness), {'match': c.accs[1]}, {'match': c.accs[0]}))


def relational(res, kind, inp, m1, m2, rel, is_bytes=False):
    """Explore {(n1, n2) | n1 rel n2 letterwise}; every reachable state must have equal acceptance."""
    res.n['evaluations'] += 1
    try:
        i1, e1 = impl.nfas(m1)
        i2, e2 = impl.nfas(m2)
    except sre_aut.Unsupported:
        res.n['fallback_cases'] += 1
        return
    al = alphabet.minterms(impl.atoms(i1 + e1 + i2 + e2), is_bytes,
                           extra=(0x41, 0x61, 0x5a, 0x7a, 0x42, 0x62, 0x2f, 0x5c))
    a1 = impl.automaton(i1, e1, al)
    a2 = impl.automaton(i2, e2, al)
    letters = [(x, y) for x in range(len(al)) for y in range(len(al)) if rel(al[x], al[y])]

    def chk(accs, w):
        return 'rel' if accs[0] != accs[1] and w[0] else None

    ns, nt, seen, bad = product.explore_rel([a1, a2], letters, chk)
    res.n['states'] += ns
    res.n['transitions'] += nt
    w1, w2 = impl.wcregexp(m1), impl.wcregexp(m2)
    for P, w in seen.items():
        if not w[0]:
            continue
        t1, t2 = alphabet.to_text(w[0], al, is_bytes), alphabet.to_text(w[1], al, is_bytes)
        res.n['traces_validated_against_impl'] += 1
        if (bool(w1.match(t1)), bool(w2.match(t2))) != (a1.accepting(P[0]), a2.accepting(P[1])):
            res.divergences.append({'kind': kind, 'inp': inp, 'names': [t1, t2]})
            res.n['fallback_cases'] += 1
            return
    if ns > 2:
        res.n['distinct_nontrivial'] += 1
    res.outcomes.add(kind + (':holds' if not bad else ':broken'))
    bad.sort(key=lambda b: (len(b[1][0]), b[1]))
    for tag, w, accs in bad[:2]:
        t1, t2 = alphabet.to_text(w[0], al, is_bytes), alphabet.to_text(w[1], al, is_bytes)
        res.add_violation(ID, run.viol(kind, dict(inp, name=t1, name2=t2), {'equal': True},
                                       {'match1': accs[0], 'match2': accs[1]}))


def _swap(c):
    return c + 32 if 0x41 <= c <= 0x5a else c - 32 if 0x61 <= c <= 0x7a else c


def rel_case(a, b):
    return a == b or _swap(a) == b


def rel_sep(a, b):
    return a == b or (a in (0x2f, 0x5c) and b in (0x2f, 0x5c))


def rel_w2u(a, b):
    return b == (0x2f if a == 0x5c else a)


def swap_literals(seq):
    out = []
    for nd in seq:
        if nd[0] == 'lit' and nd[1].isalpha():
            out.append(('lit', nd[1].swapcase(), nd[2]))
        elif nd[0] == 'ext':
            out.append(('ext', nd[1], tuple(swap_literals(a) for a in nd[2])))
        else:
            out.append(nd)
    return tuple(out)


MODE_SETS = ['', 'C', 'I', 'CI', 'W', 'U', 'WU', 'CW', 'IW', 'CIW', 'CU', 'IU', 'CIU', 'CWU', 'IWU', 'CIWU']
INSENS = ['I', 'W', 'IW', 'IU']


def check_pattern(mode, seq, base, res, is_bytes=False):
    text = pat.render(seq)
    inp0 = {'mode': mode, 'pattern': text, 'base': base, 'bytes': is_bytes}
    ms = {}
    for fs in MODE_SETS:
        try:
            ms[fs] = comp(mode, text, base + fs, is_bytes)
        except Exception as e:  # noqa: BLE001
            res.notes['compile_exception'] += 1
            return
    # table
    for fs in MODE_SETS:
        cn = canonical(fs)
        if cn != ''.join(sorted(fs)):
            lang_equal(res, 'table', dict(inp0, flags=fs, canonical=cn), ms[fs], _canon(ms, cn), is_bytes)
    has_bs = '\\' in text
    for fs in INSENS:
        relational(res, 'caseclose', dict(inp0, flags=fs), ms[fs], ms[fs], rel_case, is_bytes)
        sw = pat.render(swap_literals(seq))
        if sw != text:
            try:
                m2 = comp(mode, sw, base + fs, is_bytes)
            except Exception:  # noqa: BLE001
                continue
            lang_equal(res, 'litswap', dict(inp0, flags=fs, swapped=sw), ms[fs], m2, is_bytes)
    for fs in ('W', 'CW'):
        relational(res, 'sepclose', dict(inp0, flags=fs), ms[fs], ms[fs], rel_sep, is_bytes)
    if not has_bs:
        relational(res, 'winunix', dict(inp0, flags='W', flags2='IU'), ms['W'], ms['IU'], rel_w2u, is_bytes)
        relational(res, 'winunix', dict(inp0, flags='CW', flags2='CU'), ms['CW'], ms['CU'], rel_w2u, is_bytes)


def _canon(ms, cn):
    for k, v in ms.items():
        if ''.join(sorted(k)) == cn:
            return v
    raise KeyError(cn)


# ---------------------------------------------------------------- backslash separators and drives

def check_bslash(res):
    """An escaped backslash in the pattern is a separator under FORCEWIN (glob), matches both separators (fnmatch)."""
    cases = [('a\\\\b', 'a/b'), ('a\\\\*', 'a/*'), ('*\\\\b', '*/b'), ('a\\\\\\\\b', 'a//b'), ('**\\\\b', '**/b'),
             ('a\\\\', 'a/'), ('\\\\a', '/a'), ('a\\\\.b', 'a/.b'), ('@(a)\\\\b', '@(a)/b'), ('a\\\\**', 'a/**')]
    for base in ('E', 'GE', 'GDE', 'GEC', 'GEX'):
        for p1, p2 in cases:
            for mode in ('glob', 'fn'):
                if mode == 'fn' and set(base) & set('GX'):
                    continue
                try:
                    m1, m2 = comp(mode, p1, base + 'W'), comp(mode, p2, base + 'W')
                except Exception:  # noqa: BLE001
                    continue
                lang_equal(res, 'bslash', {'mode': mode, 'pattern': p1, 'pattern2': p2, 'flags': base + 'W'}, m1, m2)
    # separator runs, escaped slashes and escaped backslashes directly behind a drive / UNC prefix (path mode)
    dcases = [('c://a', 'c:/a'), ('c:\\\\\\\\a', 'c:/a'), ('c:/\\\\a', 'c:/a'), ('c:\\/a', 'c:/a'), ('c:\\/', 'c:/'), ('c://**/b', 'c:/**/b'),
              ('//host/share//a', '//host/share/a'), ('//host/share\\/a', '//host/share/a'), ('//?/c:\\/a', '//?/c:/a'),
              ('//?/UNC/host/share\\/a', '//?/UNC/host/share/a'), ('c:///*', 'c:/*'), ('d\\/a', 'd/a')]
    for base in ('E', 'GE', 'GDE', 'GEC'):
        for p1, p2 in dcases:
            try:
                m1, m2 = comp('glob', p1, base + 'W'), comp('glob', p2, base + 'W')
            except Exception:  # noqa: BLE001
                continue
            lang_equal(res, 'bslash', {'mode': 'glob', 'pattern': p1, 'pattern2': p2, 'flags': base + 'W'}, m1, m2)
    # in path mode an escaped backslash ends a would-be bracket exactly as a slash does - for SPLIT's scanner too
    for base in ('E', 'GE'):
        for p1, p2 in (('[a\\\\|b]', '[a/|b]'), ('x[\\\\|]', 'x[/|]'), ('[a\\\\b]|c', '[a/b]|c'), ('a|[\\\\|]', 'a|[/|]')):
            try:
                m1, m2 = comp('glob', p1, base + 'WS'), comp('glob', p2, base + 'WS')
            except Exception:  # noqa: BLE001
                continue
            lang_equal(res, 'bslash', {'mode': 'glob', 'pattern': p1, 'pattern2': p2, 'flags': base + 'WS'}, m1, m2)
    res.samples.append({'bslash': ['a\\\\b', 'a/b']})


DRIVES = [
    # (pattern prefix, strict prefix regex, loose prefix regex)
    ('c:/', r'(?i:c:)[\\/]', r'(?i:c:)[\\/]+'),
    ('C:/', r'(?i:c:)[\\/]', r'(?i:c:)[\\/]+'),
    ('c:\\\\', r'(?i:c:)[\\/]', r'(?i:c:)[\\/]+'),
    ('//host/share/', r'[\\/]{2}(?i:host)[\\/](?i:share)[\\/]', r'[\\/]{2,}(?i:host)[\\/]+(?i:share)[\\/]+'),
    ('//HOST/Share/', r'[\\/]{2}(?i:host)[\\/](?i:share)[\\/]', r'[\\/]{2,}(?i:host)[\\/]+(?i:share)[\\/]+'),
    ('\\\\\\\\host\\\\share\\\\', r'[\\/]{2}(?i:host)[\\/](?i:share)[\\/]', r'[\\/]{2,}(?i:host)[\\/]+(?i:share)[\\/]+'),
    ('//?/UNC/host/share/', r'[\\/]{2}\?[\\/](?i:unc)[\\/](?i:host)[\\/](?i:share)[\\/]',
     r'[\\/]{2,}\?[\\/]+(?i:unc)[\\/]+(?i:host)[\\/]+(?i:share)[\\/]+'),
    ('//?/unc/host/share/', r'[\\/]{2}\?[\\/](?i:unc)[\\/](?i:host)[\\/](?i:share)[\\/]',
     r'[\\/]{2,}\?[\\/]+(?i:unc)[\\/]+(?i:host)[\\/]+(?i:share)[\\/]+'),
    ('//?/c:/', r'[\\/]{2}\?[\\/](?i:c:)[\\/]', r'[\\/]{2,}\?[\\/]+(?i:c:)[\\/]+'),
    ('//./C:/', r'[\\/]{2}\.[\\/](?i:c:)[\\/]', r'[\\/]{2,}\.[\\/]+(?i:c:)[\\/]+'),
    ('//?/GLOBAL/UNC/host/share/', r'[\\/]{2}\?[\\/](?i:global)[\\/](?i:unc)[\\/](?i:host)[\\/](?i:share)[\\/]',
     r'[\\/]{2,}\?[\\/]+(?i:global)[\\/]+(?i:unc)[\\/]+(?i:host)[\\/]+(?i:share)[\\/]+'),
]
RESTS = ['a', 'a*', '*', 'A?', '*/b', '**/a', '[ab]', '@(a|B)', 'a/', '.a', 'h*t']


def check_drives(res):
    for base in ('GE', 'GEC', 'GDE', 'GEI'):
        for pre, strict, loose in DRIVES:
            for rest in RESTS:
                p = pre + rest
                inp = {'mode': 'glob', 'pattern': p, 'flags': base + 'W'}
                try:
                    m = comp('glob', p, base + 'W')
                    # the rest is matched as the tail of an absolute pattern: compile it behind a plain root
                    mr = impl.wcregexp(comp('glob', '/' + rest, base + 'W'))
                except Exception as e:  # noqa: BLE001
                    res.add_violation(ID, run.viol('drive-compile', inp, 'compiles', {'exc': type(e).__name__}))
                    continue
                body = mr._include[0].pattern
                mm = re.match(r'^\^\(\?s(i?):\[\\\\/\]\+(.*)\)\$$', body, re.S)
                if not mm:
                    res.notes['drive_rest_shape_unrecognised'] += 1
                    continue
                ic, tail = mm.group(1), mm.group(2)
                lo = _wcmatch.WcRegexp((re.compile('^(?s%s:%s%s)$' % (ic, strict, tail)),))
                hi = _wcmatch.WcRegexp((re.compile('^(?s%s:%s%s)$' % (ic, loose, tail)),))
                # L_lo subset of impl subset of L_hi : check via emptiness of differences
                for kind, big, small in (('drive-accepts-foreign-prefix', hi, m), ('drive-rejects-own-prefix', m, lo)):
                    res.n['evaluations'] += 1
                    d = _wcmatch.WcRegexp(tuple(impl.wcregexp(small)._include), tuple(impl.wcregexp(big)._include))
                    empty = _wcmatch.WcRegexp(())
                    c = langcmp.equal(d, empty, False)
                    _note(res, c)
                    res.n['distinct_nontrivial'] += 1
                    res.outcomes.add(kind + (':ok' if c.witness is None else ':bad'))
                    if c.witness is not None:
                        res.add_violation(ID, run.viol(kind, dict(inp, name=c.witness),
                                                       {'match': kind == 'drive-rejects-own-prefix'},
                                                       {'match': kind != 'drive-rejects-own-prefix'}))
    res.samples.append({'drive': '//?/UNC/host/share/a*', 'flags': 'GEW'})


WALK_TREE = ['Dir/', 'Dir/File.txt', 'dir/', 'dir/file.txt', 'A', 'a', 'b/', 'b/A.txt']
WALK_PATS = ['dir/file.txt', 'DIR/*', '**/file.txt', 'a', 'A*', '*/FILE.TXT', 'b/a.TXT', '**/[a]*', 'Dir/**']


def check_walk(res):
    """glob() on a real tree: the platform flags cannot change the walking rules of this platform (FORCEWIN is dropped
    under REALPATH), CASE wins over IGNORECASE, and literal segments follow the same case rule as wildcards."""
    from .. import fsx
    sc = fsx.Scratch()
    try:
        sc.load(fsx.from_desc(WALK_TREE))
        for p in WALK_PATS:
            for fs in MODE_SETS:
                cn = ''.join(sorted(set(fs) - {'W', 'U'}))
                if 'C' in cn:
                    cn = 'C'
                res.n['evaluations'] += 1
                res.n['distinct_nontrivial'] += 1
                a = sorted(G.glob(p, flags=flags_of('GE' + fs), root_dir=sc.root))
                b = sorted(G.glob(p, flags=flags_of('GE' + cn), root_dir=sc.root))
                # independent expectation for the canonical mode: case-(in)sensitive comparison of every segment
                res.outcomes.add('walk:%s' % ('equal' if a == b else 'differ'))
                if a != b:
                    res.add_violation(ID, run.viol('walk-table', {'mode': 'glob()', 'tree': WALK_TREE, 'pattern': p, 'flags': fs, 'canonical': cn},
                                                   b, a))
        res.samples.append({'tree': WALK_TREE, 'pattern': 'dir/file.txt', 'flags': 'W'})
    finally:
        sc.close()


# ---------------------------------------------------------------- planning

def menus():
    fn_lv = pat.leaves('aA./', pat.BR_CORE + ['[A-b]', '[/]', '[\\\\]', '[a\\\\]'])
    inner = pat.leaves('aA.', pat.BR_CORE)
    top = inner + [('star', 2), ('sep', 1, False)]
    return fn_lv, inner, top


def plan(tier, seed):
    chunks = []
    NS = 48
    if tier == 'quick':
        spec = [('fn', [1, 2, 3], ['E', 'DE'], 1), ('glob', [1, 2], ['GE', 'GDE', 'GXE', 'GEO'], 1), ('glob', [3], ['GE', 'GDE'], 1)]
    else:
        spec = [('fn', [1, 2, 3], ['E', 'DE', ''], 2), ('fn', [4], ['E'], 1), ('glob', [1, 2, 3], ['GE', 'GDE', 'GXE', 'GZE'], 1),
                ('glob', [4], ['GDE'], 1)]
    layers = []
    for mode, budgets, bases, depth in spec:
        for b in budgets:
            for sh in range(NS):
                chunks.append(('pat', mode, b, tuple(bases), depth, sh, NS))
        layers.append({'mode': mode, 'budgets': budgets, 'base_flags': bases, 'nesting': depth,
                       'mode_sets': MODE_SETS, 'bytes_too': True})
    chunks.append(('bslash',))
    chunks.append(('drives',))
    chunks.append(('walk',))
    return {
        'chunks': chunks,
        'coverage': {'layers': layers, 'drives': [d[0] for d in DRIVES], 'drive_rests': RESTS, 'exhaustive': True},
        'rule': 'every pattern AST of the stated budget over the mixed-case leaf menu (a A . * ? [ab] [!a] [A-b], ** and / '
                'in path mode, groups) x base flags x the 16 subsets of {CASE, IGNORECASE, FORCEWIN, FORCEUNIX}, str and '
                'bytes; relational products explore all pairs of names related letterwise; non-trivial = comparison that '
                'needed a product exploration (regex texts differ) with more than two states',
        'assumptions': ['only pure matching is reachable on Linux; real Windows walking is not claimed',
                        'drive/UNC reference prefixes are written from the statement as a strict and a loose regex; the '
                        'implementation language must lie between them'],
        'nontrivial_floor': 300,
    }


def run_chunk(chunk):
    res = run.ChunkResult()
    if chunk[0] == 'bslash':
        check_bslash(res)
        return res
    if chunk[0] == 'drives':
        check_drives(res)
        return res
    if chunk[0] == 'walk':
        check_walk(res)
        return res
    _k, mode, budget, bases, depth, sh, ns = chunk
    fn_lv, inner, top = menus()
    k = 0
    for seq in pat.gen(budget, top if mode == 'glob' else fn_lv, ext=True, depth=depth, max_alts=2,
                       inner=inner if mode == 'glob' else None):
        k += 1
        if k % ns != sh:
            continue
        for base in bases:
            check_pattern(mode, seq, base, res, False)
        if budget <= 2:
            check_pattern(mode, seq, bases[0], res, True)
            if 'GEO' in bases and budget == 1:
                check_pattern(mode, seq, 'GEO', res, True)
        if k % 499 == 0:
            res.samples.append({'mode': mode, 'pattern': pat.render(seq), 'base': bases[0]})
    impl.clear()
    return res


def replay(v):
    inp = v['input']
    kind = v['kind']
    mode = inp['mode']
    if kind == 'walk-table':
        r = run.ChunkResult()
        check_walk(r)
        hit = [x for x in r.viol if x['input'] == run.jsonable(inp)]
        return {'violates': bool(hit), 'observed': hit[0]['observed'] if hit else 'ok'}
    mod = G if mode == 'glob' else F
    match = mod.globmatch if mode == 'glob' else mod.fnmatch
    name = inp.get('name')
    if kind == 'table':
        p = inp['pattern'].encode('latin-1') if inp.get('bytes') else inp['pattern']
        a = match(name, p, flags=flags_of(inp['base'] + inp['flags']))
        b = match(name, p, flags=flags_of(inp['base'] + inp['canonical']))
        return {'violates': a != b, 'observed': {'flags': a, 'canonical': b}}
    if kind in ('caseclose', 'sepclose', 'winunix'):
        p = inp['pattern'].encode('latin-1') if inp.get('bytes') else inp['pattern']
        a = match(name, p, flags=flags_of(inp['base'] + inp['flags']))
        b = match(inp['name2'], p, flags=flags_of(inp['base'] + inp.get('flags2', inp['flags'])))
        return {'violates': a != b, 'observed': {'match1': a, 'match2': b}}
    if kind == 'litswap':
        p = inp['pattern'].encode('latin-1') if inp.get('bytes') else inp['pattern']
        q = inp['swapped'].encode('latin-1') if inp.get('bytes') else inp['swapped']
        a = match(name, p, flags=flags_of(inp['base'] + inp['flags']))
        b = match(name, q, flags=flags_of(inp['base'] + inp['flags']))
        return {'violates': a != b, 'observed': {'pattern': a, 'swapped': b}}
    if kind == 'bslash':
        a = match(name, inp['pattern'], flags=flags_of(inp['flags']))
        b = match(name, inp['pattern2'], flags=flags_of(inp['flags']))
        return {'violates': a != b, 'observed': {'pattern': a, 'pattern2': b}}
    if kind.startswith('drive'):
        try:
            a = match(name, inp['pattern'], flags=flags_of(inp['flags']))
        except Exception as e:  # noqa: BLE001
            return {'violates': True, 'observed': type(e).__name__}
        return {'violates': a != v['expected']['match'], 'observed': {'match': a}}
    raise ValueError(kind)
