"""C03 - hidden names and the special directories are never matched by wildcards.

AUT part: for every generated pattern (fnmatch and path mode, including patterns with no literal dot) the
product  impl x L_ok x L_must x tracker  is explored exhaustively, where L_ok / L_must are derived from the
*labelled* reference NFA (which token consumes each segment-leading dot):
  (a)/(c)  impl accepts a name with a hidden / special segment  =>  some accepting run of the documented
           language consumes every such leading dot with a written '.'   (for a dot-free pattern: emptiness)
  (b)      a run in which every leading dot is consumed by a written '.' that is the first token of its segment
           exists  =>  impl accepts
  (d)      exclusion patterns behave as if DOTGLOB were set (language equality of executed regexes)
FSX part (glob()/WcMatch on real trees with dot files) lives in C05/C14's explorers and is cross-referenced.
"""
from .. import bind, run, pat, ref_aut, impl, alphabet, product, sre_aut, langcmp
from wcmatch import glob as G, fnmatch as F, _wcparse as W, pathlib as WP

ID = 'C03'
LEVEL = 'model_checking'

GF = {'G': G.GLOBSTAR, 'L': G.GLOBSTARLONG, 'X': G.MATCHBASE, 'D': G.DOTGLOB, 'E': G.EXTGLOB, 'Z': G.NODOTDIR,
      'B': W._EXTMATCHBASE, 'N': G.NEGATE}
FF = {'D': F.DOTMATCH, 'E': F.EXTMATCH, 'N': F.NEGATE}


def gflags(fs):
    f = 0
    for ch in fs:
        f |= GF[ch]
    return f


def fflags(fs):
    f = 0
    for ch in fs:
        f |= FF[ch]
    return f


def build(mode_name, seq, fs, res):
    """-> dict with automata, or None."""
    path = mode_name == 'glob'
    text = pat.render(seq)
    ext = 'E' in fs
    ast = seq if ext else pat.desugar(seq)
    if ext and not pat.neg_ok(ast):
        res.notes['skipped_negation_shape'] += 1
        return None
    mode = ref_aut.Mode(ic=False, path=path)
    try:
        m = G.compile(text, flags=gflags(fs)) if path else F.compile(text, flags=fflags(fs))
    except Exception as e:  # noqa: BLE001
        res.notes['compile_exception'] += 1
        return None
    try:
        inc, exc = impl.nfas(m)
    except sre_aut.Unsupported:
        res.notes['unsupported'] += 1
        return None
    al = alphabet.minterms(impl.atoms(inc + exc) + ref_aut.collect_atoms(ast, mode) + ref_aut.base_atoms(mode), False)
    I = impl.automaton(inc, exc, al)
    dotglob = 'D' in fs
    nodotdir = 'Z' in fs
    if path:
        pf = ref_aut.PathFlags(globstar='G' in fs, globstarlong='L' in fs, matchbase='X' in fs, dotglob=dotglob,
                               extmatchbase='B' in fs)
        PR = ref_aut.PathRef(ast, al, mode, pf)
        n, s, f = PR.n, PR.start, PR.final
        rel_gstar = PR.starts_gstar and not PR.absolute
        egs = PR.ends_gstar_slash
    else:
        _R, n, s, f = ref_aut.fnmatch_ref(ast, al, mode)
        rel_gstar = egs = False

    def hid_ok(lead):
        return dotglob or lead in (1, 2)

    def spec_ok(lead, allw):
        return allw if nodotdir else lead in (1, 2)

    n1, s1, f1 = ref_aut.filter_runs(n, s, f, n.sep_mask, hid_ok, spec_ok, path)
    OK = ref_aut.RevDFA(n1, s1, f1)
    n2, s2, f2 = ref_aut.filter_runs(n, s, f, n.sep_mask, lambda lead: lead == 1, lambda lead, allw: False, path)
    MUST = ref_aut.RevDFA(n2, s2, f2)
    T = ref_aut.PathTracker(al, mode.seps if path else ())
    return dict(text=text, ast=ast, m=m, al=al, I=I, OK=OK, MUST=MUST, T=T, path=path, dotglob=dotglob,
                rel_gstar=rel_gstar, egs=egs, mode=mode)


def check_instance(mode_name, seq, fs, res):
    b = build(mode_name, seq, fs, res)
    if b is None:
        return
    res.n['evaluations'] += 1
    I, OK, MUST, T, al = b['I'], b['OK'], b['MUST'], b['T'], b['al']
    path, dotglob = b['path'], b['dotglob']
    rel_gstar, egs = b['rel_gstar'], b['egs']

    def relevant(t):
        hidden, special, nonempty, nonsep, ends_sep, absolute = t
        if not nonempty or not nonsep:
            return 0
        if rel_gstar and absolute:
            return 0
        if egs and not ends_sep:
            return 0
        if special and path:
            return 2
        if (hidden or special) and not dotglob:
            return 1
        return 0

    def chk(accs, w):
        r = relevant(accs[3])
        if not r:
            return None
        if accs[0] and not accs[1]:
            return 'leak'
        if r == 1 and accs[2] and not accs[0]:
            return 'refused'
        return None

    ns, nt, seen, bad = product.explore([I, OK, MUST, T], len(al), chk)
    res.n['states'] += ns
    res.n['transitions'] += nt
    m = b['m']
    rel_acc = rel_rej = 0
    for P, w in seen.items():
        if not w:
            continue
        t = alphabet.to_text(w, al)
        real = m.match(t)
        res.n['traces_validated_against_impl'] += 1
        if real != I.accepting(P[0]):
            res.divergences.append({'pattern': b['text'], 'flags': fs, 'name': t, 'real': real})
            res.notes['divergence'] += 1
            res.n['fallback_cases'] += 1
            return
        if relevant(T.accepting(P[3])):
            if real:
                rel_acc += 1
            else:
                rel_rej += 1
    if rel_rej:
        res.n['distinct_nontrivial'] += 1
    res.outcomes.add('hidden-accepted' if rel_acc else 'hidden-all-rejected')
    bad.sort(key=lambda x: (len(x[1]), x[1]))
    for tag, w, accs in bad[:4]:
        name = alphabet.to_text(w, al)
        v = run.viol(tag, {'mode': mode_name, 'pattern': b['text'], 'flags': fs, 'name': name},
                     {'match': tag == 'refused'}, {'match': accs[0]}, 'states=%d' % ns)
        v['ast'] = repr(b['ast'])
        res.add_violation(ID, v)
    # pathlib entry point for the implicit prefix (flag B): replay witnesses that pathlib does not normalise away
    if path and 'B' in fs:
        k = 0
        for P, w in seen.items():
            if not w or k >= (16 if 'Z' in fs else 3):
                continue
            t = alphabet.to_text(w, al)
            if '\n' in t or str(WP.PurePosixPath(t)) != t:
                continue
            k += 1
            fl = gflags(fs.replace('B', ''))
            try:
                real = WP.PurePosixPath(t).match(b['text'], flags=fl)
            except Exception as e:  # noqa: BLE001
                real = type(e).__name__
            res.n['traces_validated_against_impl'] += 1
            if real != I.accepting(P[0]):
                res.add_violation(ID, run.viol('pathlib-match-differs', {'mode': 'glob', 'pattern': b['text'],
                                               'flags': fs, 'name': t}, {'match': I.accepting(P[0])}, {'match': real}))


def check_exclusion(mode_name, seq, fs, res):
    """(d): the exclusion matcher for p under flags F is the inclusion matcher for p under F|DOTMATCH."""
    text = pat.render(seq)
    mod = G if mode_name == 'glob' else F
    fl = gflags(fs) if mode_name == 'glob' else fflags(fs)
    res.n['evaluations'] += 1
    try:
        a = mod.compile('*', flags=fl, exclude=text)
        b = mod.compile(['*', '!' + text], flags=fl | mod.NEGATE)
        c = mod.compile(text, flags=fl | mod.DOTMATCH)
    except Exception:  # noqa: BLE001
        res.notes['compile_exception'] += 1
        return
    # an exclusion does not change how the inclusions of the same call are read - whether it comes before or after them,
    # inline, split, or through NEGATEALL's implicit match-everything inclusion
    try:
        alone = mod.compile(text, flags=fl)
        every = mod.compile('**' if mode_name == 'glob' else '*', flags=fl | (G.GLOBSTAR if mode_name == 'glob' else 0))
        variants = [('excl-first', mod.compile(['!zz', text], flags=fl | mod.NEGATE), alone),
                    ('excl-last', mod.compile([text, '!zz'], flags=fl | mod.NEGATE), alone),
                    ('excl-arg', mod.compile(text, flags=fl, exclude='zz'), alone),
                    ('negateall', mod.compile('!' + text, flags=fl | mod.NEGATE | mod.NEGATEALL), every)]
        if '|' not in text:
            variants.append(('split-first', mod.compile('!zz|' + text, flags=fl | mod.NEGATE | mod.SPLIT), alone))
        # translate() supplies the same implicit inclusion
        import re as _re
        from wcmatch import _wcmatch as _wm
        tinc = mod.translate('!' + text, flags=fl | mod.NEGATE | mod.NEGATEALL)[0]
        variants.append(('negateall-translate', _wm.WcRegexp(tuple(_re.compile(x) for x in tinc)), every))
    except Exception:  # noqa: BLE001
        variants = []
    for how, mm, ref in variants:
        gi = [r.pattern for r in impl.wcregexp(mm)._include]
        wi = [r.pattern for r in impl.wcregexp(ref)._include]
        res.n['evaluations'] += 1
        if gi == wi:
            res.outcomes.add('incl-text-equal')
            continue
        from wcmatch import _wcmatch
        c3 = langcmp.equal(_wcmatch.WcRegexp(tuple(impl.wcregexp(mm)._include)), _wcmatch.WcRegexp(tuple(impl.wcregexp(ref)._include)), False)
        res.n['states'] += c3.states
        res.n['transitions'] += c3.transitions
        res.outcomes.add('incl-lang-equal' if c3.witness is None else 'incl-lang-differ')
        if c3.witness is not None:
            res.add_violation(ID, run.viol('inclusion-changed-by-exclusion', {'mode': mode_name, 'pattern': text, 'flags': fs,
                                           'name': c3.witness, 'how': how}, {'included': c3.accs[1]}, {'included': c3.accs[0]}))
    want = [r.pattern for r in impl.wcregexp(c)._include]
    # translate() hands out the same exclusion regexes as the matcher uses
    try:
        tr = mod.translate('*', flags=fl, exclude=text)[1]
    except Exception:  # noqa: BLE001
        tr = None
    if tr is not None and list(tr) != [r.pattern for r in impl.wcregexp(a)._exclude]:
        from wcmatch import _wcmatch
        import re as _re
        e1 = _wcmatch.WcRegexp(tuple(_re.compile(x) for x in tr))
        e2 = _wcmatch.WcRegexp(tuple(impl.wcregexp(a)._exclude))
        c4 = langcmp.equal(e1, e2, False)
        if c4.witness is not None:
            res.add_violation(ID, run.viol('exclusion-dotmatch', {'mode': mode_name, 'pattern': text, 'flags': fs, 'name': c4.witness,
                                                                  'how': 'translate-exclude='}, {'excluded': c4.accs[1]}, {'excluded': c4.accs[0]}))
    for how, mm in (('exclude=', a), ('inline', b)):
        got = [r.pattern for r in impl.wcregexp(mm)._exclude]
        if got == want:
            res.outcomes.add('excl-text-equal')
            continue
        # texts differ: compare languages of the exclusion regexes with the DOTMATCH inclusion regexes
        from wcmatch import _wcmatch
        e = _wcmatch.WcRegexp(tuple(impl.wcregexp(mm)._exclude))
        c2 = langcmp.equal(e, c, False)
        res.n['states'] += c2.states
        res.n['transitions'] += c2.transitions
        res.n['traces_validated_against_impl'] += c2.traces
        res.outcomes.add('excl-lang-equal' if c2.witness is None else 'excl-lang-differ')
        if c2.witness is not None:
            res.add_violation(ID, run.viol('exclusion-dotmatch', {'mode': mode_name, 'pattern': text, 'flags': fs,
                                           'name': c2.witness, 'how': how}, {'excluded': c2.accs[1]},
                                           {'excluded': c2.accs[0]}))


# ---------------------------------------------------------------- planning

def menus():
    # `[!z-a]`: a negated bracket whose only range is reversed means "any character" - and is still a bracket at the
    # start of a segment
    inner = pat.leaves('a.', pat.BR_CORE + ['[.]', '[!.]', '[!z-a]'])
    top = inner + [('star', 2), ('sep', 1, False), ('sep', 1, True)]
    return inner, top


FN_FLAGSETS = ['E', '', 'DE']
GL_FLAGSETS = ['E', 'GE', 'GDE', 'GZE', 'GXE', 'BGE', 'GDZE', 'XE', 'BE', 'LE', '', 'G', 'GXDE', 'BGDE', 'BGZE', 'BGDZE']


def plan(tier, seed):
    chunks = []
    layers = []
    NS = 48

    def add(mode_name, budgets, flagsets, depth, max_alts, residue=None):
        for bdg in budgets:
            for sh in range(NS):
                chunks.append(('aut', mode_name, bdg, tuple(flagsets), depth, max_alts, sh, NS, residue))
        layers.append({'mode': mode_name, 'budgets': list(budgets), 'flagsets': list(flagsets), 'nesting': depth,
                       'max_alts': max_alts, 'exhaustive': residue is None, 'residue': residue})

    # two segments, a group with a written dot in one and a group / wildcard in the other (state carried across `/`)
    for sh in range(8):
        chunks.append(('aut', 'glob-pairs', 3, ('GDE', 'DE'), 1, 2, sh, 8, None))
    layers.append({'mode': 'glob', 'shape': '<segment with a group holding a written dot>/<!(b) | * | ?(a)* | @(*|.)> and reversed',
                   'flagsets': ['GDE', 'DE'], 'exhaustive': True})
    if tier == 'quick':
        add('fn', [1, 2, 3], FN_FLAGSETS, 2, 2)
        add('fn-nested', [4], ['E'], 2, 2)
        add('glob', [1, 2], GL_FLAGSETS, 1, 2)
        add('glob', [3], GL_FLAGSETS[:8], 1, 2)
    else:
        add('fn', [1, 2, 3], FN_FLAGSETS, 3, 3)
        add('fn', [4], FN_FLAGSETS[:2], 2, 2)
        add('glob', [1, 2, 3], GL_FLAGSETS, 2, 2)
        add('glob', [4], GL_FLAGSETS[:6], 1, 2, residue=(seed % 4, 4))
    return {
        'chunks': chunks,
        'coverage': {'layers': layers, 'exhaustive': True},
        'rule': 'every pattern AST of the stated budget (fnmatch mode and path mode; leaves a . * ? [ab] [!a] [.] [!.] '
                '(+ ** and / in path mode), groups) x flag set; per instance the reachable product impl x L_ok x L_must '
                'x tracker is explored (all names); exclusion-as-DOTGLOB is a language equality between executed '
                'regexes; non-trivial = instance for which at least one hidden/special name is rejected',
        'assumptions': [
            'three-valued reference: a hidden name is must-reject when no accepting run of the documented language '
            'consumes its leading dot with a written dot, must-accept when a run consumes it with a written dot that '
            'is the first token of the segment, otherwise don\'t-care',
            'special segments . and .. are never must-accept; with NODOTDIR they need every dot written',
        ],
        'nontrivial_floor': 300,
    }


UNTERMINATED = [('*(a', '*\\(a'), ('?(a', '?\\(a'), ('*(', '*\\('), ('?(a|b', '?\\(a\\|b'), ('*(a*', '*\\(a*'), ('?(?', '?\\(?'),
                ('d/*(a', 'd/*\\(a'), ('**/?(a', '**/?\\(a'), ('*(a/b', '*\\(a/b'), ('+(a', '+\\(a'), ('@(a', '@\\(a')]


def check_unterminated(res):
    """A group opener that is never closed is ordinary text; a `*` or `?` in front of it is an ordinary wildcard - with the
    hidden-name discipline of one: the pattern means what its escaped spelling means (all names)."""
    for p1, p2 in UNTERMINATED:
        for mode_name, mod, fsets in (('fn', F, ('E', 'DE')), ('glob', G, ('E', 'GE', 'GDE', 'GZE'))):
            if mode_name == 'fn' and '/' in p1:
                continue
            for fs in fsets:
                fl = gflags(fs) if mode_name == 'glob' else fflags(fs)
                res.n['evaluations'] += 1
                try:
                    c = langcmp.equal(mod.compile(p1, flags=fl), mod.compile(p2, flags=fl), False)
                except Exception:  # noqa: BLE001
                    res.notes['compile_exception'] += 1
                    continue
                res.n['states'] += c.states
                res.n['transitions'] += c.transitions
                res.n['distinct_nontrivial'] += 1
                if c.witness is not None:
                    res.add_violation(ID, run.viol('unterminated-group-wildcard', {'mode': mode_name, 'pattern': p1, 'pattern2': p2, 'flags': fs,
                                                                                    'name': c.witness}, {'match': c.accs[1]}, {'match': c.accs[0]}))
    res.samples.append({'unterminated': '*(a', 'means': '*\\(a'})


PAIR_SECOND = ['!(a)', '*', '@(*|.)']


def _pairs(res, sh, ns, flagsets):
    inner, top = menus()
    L = pat.lit
    seconds = []
    for txt in PAIR_SECOND:
        found = [seq for b in (1, 2, 3) for seq in pat.gen(b, inner, ext=True, depth=1, max_alts=2) if pat.render(seq) == txt]
        if not found:
            raise run.HarnessError('C03 pairs: %r not generated' % txt)
        seconds.append(found[0])
    k = 0
    firsts = [seq for seq in pat.gen(3, inner, ext=True, depth=1, max_alts=2)
              if any(nd[0] == 'ext' and any(a and a[0] == L('.') for a in nd[2]) for nd in seq)]
    # plus the groups of one more token that stand alone in their segment: @(.a), !(.a), +(.a|b), ?(.a) ...
    firsts += [seq for seq in pat.gen(4, inner, ext=True, depth=1, max_alts=2)
               if len(seq) == 1 and seq[0][0] == 'ext' and any(a and a[0] == L('.') for a in seq[0][2])]
    for seq in firsts:
        for s2 in seconds:
            for both in ((seq, s2), (s2, seq)):
                k += 1
                if k % ns != sh:
                    continue
                full = tuple(both[0]) + (('sep', 1, False),) + tuple(both[1])
                for fs in flagsets:
                    check_instance('glob', full, fs, res)
    res.samples.append({'mode': 'glob', 'pattern': '!(.a)/!(b)', 'flagsets': list(flagsets)})
    impl.clear()
    return res


def run_chunk(chunk):
    _k, mode_name, budget, flagsets, depth, max_alts, sh, ns, residue = chunk
    res = run.ChunkResult()
    if mode_name == 'glob-pairs':
        if sh == 0:
            check_unterminated(res)
        return _pairs(res, sh, ns, flagsets)
    inner, top = menus()
    lv = top if mode_name == 'glob' else inner
    k = 0
    kinds = '?*+@!'
    if mode_name == 'fn-nested':
        # groups inside groups at the start of a name: only shapes that contain a nested group, two group kinds
        mode_name, kinds, lv = 'fn', '@*', pat.leaves('a.', ['[!a]'])
    nested_only = chunk[1] == 'fn-nested'
    for seq in pat.gen(budget, lv, ext=True, depth=depth, max_alts=max_alts, inner=inner if not nested_only else None, kinds=kinds):
        if nested_only and not any(nd[0] == 'ext' and any(pat.has_ext(a) for a in nd[2]) for nd in seq):
            continue
        k += 1
        if k % ns != sh:
            continue
        text = pat.render(seq)
        if residue is not None and run.residue(text, residue[1]) != residue[0]:
            continue
        if seq and seq[0] == ('sep', 1, True):
            continue    # a leading *escaped* separator: whether that makes the pattern absolute is not specified
        grouped = pat.has_ext(seq)
        for fs in flagsets:
            if 'E' not in fs and grouped:
                continue
            check_instance(mode_name, seq, fs, res)
            if 'D' not in fs and 'B' not in fs and budget <= 3:
                check_exclusion(mode_name, seq, fs, res)
        if k % 499 == 0:
            res.samples.append({'mode': mode_name, 'pattern': text, 'flagsets': list(flagsets)[:3]})
    impl.clear()
    return res


def replay(v):
    inp = v['input']
    p = inp['pattern']
    if v['kind'] == 'exclusion-dotmatch':
        mod = G if inp['mode'] == 'glob' else F
        fl = gflags(inp['flags']) if inp['mode'] == 'glob' else fflags(inp['flags'])
        match = mod.globmatch if inp['mode'] == 'glob' else mod.fnmatch
        if inp['how'] == 'translate-exclude=':
            import re as _re
            tr = mod.translate('*', flags=fl, exclude=p)[1]
            by_translate = any(_re.compile(x).fullmatch(inp['name']) for x in tr)
            by_matcher = any(r.fullmatch(inp['name']) for r in impl.wcregexp(mod.compile('*', flags=fl, exclude=p))._exclude)
            return {'violates': by_translate != by_matcher, 'observed': {'excluded_by_translate': by_translate, 'excluded_by_matcher': by_matcher}}
        if inp['how'] == 'exclude=':
            kept = match(inp['name'], '**' if inp['mode'] == 'glob' else '*', flags=fl | mod.DOTMATCH | G.GLOBSTAR * (inp['mode'] == 'glob'), exclude=p)
        else:
            kept = match(inp['name'], ['**' if inp['mode'] == 'glob' else '*', '!' + p], flags=fl | mod.NEGATE | mod.DOTMATCH | G.GLOBSTAR * (inp['mode'] == 'glob'))
        alone = match(inp['name'], p, flags=fl | mod.DOTMATCH)
        return {'violates': kept == alone, 'observed': {'kept': kept, 'matches_alone_with_DOTMATCH': alone}}
    if v['kind'] == 'unterminated-group-wildcard':
        mod = G if inp['mode'] == 'glob' else F
        fl = gflags(inp['flags']) if inp['mode'] == 'glob' else fflags(inp['flags'])
        a = mod.compile(p, flags=fl).match(inp['name'])
        b = mod.compile(inp['pattern2'], flags=fl).match(inp['name'])
        return {'violates': a != b, 'observed': {'match': a, 'escaped_spelling': b}}
    if v['kind'] == 'inclusion-changed-by-exclusion':
        mod = G if inp['mode'] == 'glob' else F
        fl = gflags(inp['flags']) if inp['mode'] == 'glob' else fflags(inp['flags'])
        match = mod.globmatch if inp['mode'] == 'glob' else mod.fnmatch
        n, how = inp['name'], inp['how']
        if how == 'negateall-translate':
            import re as _re
            tinc = mod.translate('!' + p, flags=fl | mod.NEGATE | mod.NEGATEALL)[0]
            got = any(_re.compile(x).fullmatch(n) for x in tinc)
            want = match(n, '**' if inp['mode'] == 'glob' else '*', flags=fl | (G.GLOBSTAR if inp['mode'] == 'glob' else 0))
            return {'violates': bool(got) != bool(want), 'observed': {'implicit_inclusion_of_translate': got, 'alone': want}}
        if how == 'negateall':
            got = match(n, '!' + p, flags=fl | mod.NEGATE | mod.NEGATEALL) or match(n, p, flags=fl | mod.DOTMATCH)
            want = match(n, '**' if inp['mode'] == 'glob' else '*', flags=fl | (G.GLOBSTAR if inp['mode'] == 'glob' else 0))
        else:
            want = match(n, p, flags=fl)
            if how == 'excl-first':
                got = match(n, ['!zz', p], flags=fl | mod.NEGATE)
            elif how == 'excl-last':
                got = match(n, [p, '!zz'], flags=fl | mod.NEGATE)
            elif how == 'excl-arg':
                got = match(n, p, flags=fl, exclude='zz')
            else:
                got = match(n, '!zz|' + p, flags=fl | mod.NEGATE | mod.SPLIT)
            if match(n, 'zz', flags=fl | mod.DOTMATCH):
                return {'violates': False, 'observed': 'name is the excluded one'}
        return {'violates': bool(got) != bool(want), 'observed': {'with_exclusion': got, 'alone': want}}
    if inp['mode'] == 'glob':
        got = G.compile(p, flags=gflags(inp['flags'])).match(inp['name'])
        if v['kind'] == 'pathlib-match-differs':
            got2 = WP.PurePosixPath(inp['name']).match(p, flags=gflags(inp['flags'].replace('B', '')))
            return {'violates': got != got2, 'observed': {'compiled': got, 'pathlib': got2}}
    else:
        got = F.fnmatch(inp['name'], p, flags=fflags(inp['flags']))
    return {'violates': got != v['expected']['match'], 'observed': {'match': got}}
