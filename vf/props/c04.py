"""C04 - globmatch with REALPATH matches exactly what glob globs.

FSX exploration: in every file-system state, for every pattern (or small pattern list with exclusions) x flag set x
way of giving the root (cwd, root_dir, dir_fd): the set of paths glob() returns equals the set of candidates -
every entry of the tree (with and without trailing separator), everything glob returned, non-existent and absolute
spellings - that globmatch(..., REALPATH) accepts.  Differential oracle between two independent implementations
of the library, plus the three explicit REALPATH clauses.
"""
import os

from .. import bind, run, fsx, fspat, refglob, fscommon
from wcmatch import glob as G

ID = 'C04'
LEVEL = 'exploration'
REPLAY_DEADLINE = 120
HISTORY_REPLAY = True
MAXTASKS = 1      # every chunk in a fresh worker process, so that a chunk is a complete, replayable history
HORIZON = 3000

FLAGSETS_Q = ['GE', 'GDE', 'GEF', 'LE', 'LEF', 'GEX', 'GEO', 'E', 'GDEFX', 'GEI', 'LDEX', 'GDEO']
LISTS = [(['*', '!a'], None, 'N'), (['**', '!*/a'], None, 'N'), (['**'], ['*/'], ''), (['*', '.*'], ['.h'], ''),
         (['**/a', 'a/**'], None, ''), (['!a'], None, 'NA'), (['**'], ['**/a'], ''), (['a/*', '*/'], ['a/b'], 'N'),
         # exclude= patterns see hidden names whatever DOTGLOB says, in the walker and in the matcher alike
         (['.h/*', 'a/*'], ['*/*'], ''), (['.h', '*'], ['*'], ''), (['.h/a', 'a'], ['*/a'], ''), (['**/.h', 'b'], ['**/*'], ''),
         (['.*'], ['.h'], ''), (['.h/**'], ['**/.h'], ''),
         # an absolute pattern in front of relative ones (<ROOT> = the root directory of the state)
         (['<ROOT>/a', 'a/*'], None, ''), (['<ROOT>/*', '*/a', 'b'], None, ''), (['<ROOT>/a|b'], None, 'S'),
         (['{<ROOT>/a,*/b}'], None, 'B')]


def follows(text, fs):
    return ('F' in fs and 'L' not in fs) or ('L' in fs and '***' in text) or ('L' in fs and 'F' in fs and 'X' in fs)


def candidates(model, got):
    c = set()
    for p in model.all_paths():
        c.add(p)
        c.add(p + '/')
    for g in got:
        c.add(g)
        c.add(g.rstrip('/') if len(g) > 1 else g)
    # spellings that go through a symlinked directory (one level)
    for p in model.all_paths():
        if model.islink(p) and model.isdir(p):
            for n in model.listdir(p) or []:
                c.add(p + '/' + n)
                c.add(p + '/' + n + '/')
                # ... and one real level further (a real directory behind the link, inside the same `**`)
                try:
                    sub = model.listdir(p + '/' + n) if model.isdir(p + '/' + n) else []
                except Exception:  # noqa: BLE001
                    sub = []
                for n2 in sub or []:
                    c.add(p + '/' + n + '/' + n2)
    c.update(['zz', 'a/zz', 'zz/'])
    return sorted(c)


def _anon(x, root):
    return '<ROOT>' + x[len(root):] if x.startswith(root) else x


def run_both(pats, ex, fs, root, how, cands, dir_fd=None):
    fl = fscommon.gflags(fs)
    kw = {}
    if how == 'root_dir':
        kw['root_dir'] = root
    elif how == 'dir_fd':
        kw['dir_fd'] = dir_fd
    if any('<ROOT>' in x for x in pats):
        pats = [x.replace('<ROOT>', root) for x in pats]
    with fsx.ScandirMonitor(HORIZON) as mon:
        try:
            got = G.glob(pats, flags=fl, exclude=ex, **kw)
        except fsx.Horizon:
            return None, None
    acc = G.globfilter(cands + [x for x in got if x not in cands], pats, flags=fl | G.REALPATH, exclude=ex, **kw)
    return got, acc


def check_state(desc, sc, pats, flagsets, res, hows=('root_dir',), thin=0):
    state = fsx.from_desc(desc)
    sc.load(state)
    model = fsx.Model(state)
    cyc = model.has_cycle()
    nl_state = any('\n' in d for d in desc)
    res.n['fs_states_evaluated'] += 1
    fd = None
    cwd = os.getcwd()
    try:
        if 'dir_fd' in hows:
            fd = os.open(sc.root, os.O_RDONLY | os.O_DIRECTORY)
        if 'cwd' in hows:
            os.chdir(sc.root)
        for fi, fs in enumerate(flagsets):
            for pi, item in enumerate(pats):
                if thin and fi >= 3 and (pi + fi) % thin and isinstance(item[0], str):
                    continue
                if isinstance(item[0], str):
                    text, ast, tags = item
                    p, ex, extra = text, None, ''
                else:
                    p, ex, extra = item
                    text = ' '.join(p)
                fs2 = fs + extra
                if nl_state and ('X' in fs2 or '**' in text):
                    # behind a globstar or the MATCHBASE prefix a trailing newline is the recorded finding NLDIV (C02);
                    # the newline state is here for the matcher's and the walker's treatment of whole names
                    continue
                if cyc and follows(text, fs2):
                    res.notes['skipped_follow_on_cyclic_tree'] += 1
                    continue
                for how in hows:
                    res.n['evaluations'] += 1
                    got, acc = run_both(p, ex, fs2, sc.root, how, candidates(model, []), fd)
                    inp = {'tree': desc, 'patterns': p, 'exclude': ex, 'flags': fs2, 'root': how}
                    if got is None:
                        res.add_violation(ID, run.viol('no-termination', inp, 'terminates', 'scandir horizon'))
                        continue
                    gs = set(_anon(refglob.norm(x), sc.root) for x in got)
                    as_ = set(_anon(refglob.norm(x), sc.root) for x in acc)
                    if how == 'dir_fd' and isinstance(p, str) and '<ROOT>' not in p and '..' not in p:
                        # the bytes twin of the same descriptor-based call
                        try:
                            with fsx.ScandirMonitor(HORIZON):
                                gb = set(refglob.norm(os.fsdecode(x)) for x in G.glob(os.fsencode(p), flags=fscommon.gflags(fs2), dir_fd=fd))
                        except Exception as e:  # noqa: BLE001
                            gb = type(e).__name__
                        res.n['evaluations'] += 1
                        if gb != gs:
                            res.add_violation(ID, run.viol('bytes-dir_fd-differs', inp, sorted(gs), sorted(gb) if isinstance(gb, set) else gb))
                    if gs and len(gs) < len(model.all_paths()) + 2:
                        res.n['distinct_nontrivial'] += 1
                    only_glob = sorted(gs - as_)
                    only_match = sorted(as_ - gs)
                    res.outcomes.add('agree-empty' if not gs and not as_ else 'agree' if not only_glob and not only_match
                                     else 'differ')
                    if only_glob or only_match:
                        v = run.viol('glob-vs-globmatch', inp, {'equal_sets': True},
                                     {'only_glob': only_glob, 'only_globmatch': only_match})
                        if not isinstance(p, list):
                            v['ast'] = repr(ast)
                        res.add_violation(ID, v)
        # explicit clauses (one flag set is enough: they do not depend on the pattern language)
        for how in hows:
            kw = {'root_dir': sc.root} if how == 'root_dir' else {'dir_fd': fd} if how == 'dir_fd' else {}
            fl = G.GLOBSTAR | G.REALPATH | G.DOTGLOB
            for c in ('zz', 'a/zz', 'zz/', 'a/b/zz'):
                if model.lexists(c.rstrip('/')):
                    continue
                res.n['evaluations'] += 1
                if G.globmatch(c, '**', flags=fl, **kw):
                    res.add_violation(ID, run.viol('nonexistent-matches', {'tree': desc, 'name': c, 'root': how}, False, True))
            for p in model.all_paths():
                ab = os.path.join(sc.root, p)
                res.n['evaluations'] += 1
                if G.globmatch(ab, '**', flags=fl, **kw) or G.globmatch(ab, p, flags=fl, **kw):
                    res.add_violation(ID, run.viol('relative-pattern-matches-absolute', {'tree': desc, 'name_rel': p, 'root': how},
                                                   False, True))
                want = model.isdir(p)
                for pt in ('*/', '**/*/', p + '/'):
                    if pt != p + '/' and '/' in p:
                        continue
                    if p.startswith('.') and pt != p + '/':
                        continue
                    res.n['evaluations'] += 1
                    gotd = G.globmatch(p, pt, flags=fl, **kw)
                    if gotd != want:
                        res.add_violation(ID, run.viol('dir-demand', {'tree': desc, 'name': p, 'pattern': pt, 'root': how},
                                                       want, gotd))
    finally:
        os.chdir(cwd)
        if fd is not None:
            os.close(fd)


def plan(tier, seed):
    st_chunks, cov = fscommon.state_chunks(tier, seed, extra_roots=fscommon.SEED_STATES, per_chunk=4)
    thin = 4 if tier == 'quick' else 0
    chunks = [('std', c, thin) for c in st_chunks]
    # names ending in a newline: `a` and `a\n` are different entries for the walker and for the matcher alike
    chunks.append(('std', [['a', 'a\n', 'b/', 'b/a\n', 'b\n/', 'b\n/a']], thin))
    cov['pattern_thinning'] = ('first 3 flag sets: every pattern; other flag sets: every 4th pattern, offset rotating with '
                               'the flag set' if thin else 'none')
    cov['patterns'] = len(fspat.pattern_set('quick'))
    cov['lists'] = [l[0] for l in LISTS]
    cov['flagsets'] = FLAGSETS_Q
    cov['roots'] = ['root_dir', 'cwd', 'dir_fd']
    cov['exhaustive'] = True
    return {
        'chunks': chunks,
        'coverage': cov,
        'rule': 'every file-system state (as in C05) x FS pattern set and pattern lists with exclusions x flag sets over '
                'GLOBSTAR, GLOBSTARLONG, FOLLOW, DOTGLOB, EXTGLOB, MATCHBASE, NODIR, IGNORECASE, NEGATE/exclude; root given '
                'by root_dir for all, and by cwd and dir_fd for a pattern subset; link-following configurations only on '
                'trees without directory cycles; non-trivial = evaluations whose glob result is non-empty and not the '
                'whole tree',
        'assumptions': ['differential oracle between glob() and globmatch(REALPATH); C05 decides that glob itself is right'],
        'nontrivial_floor': 1000,
    }


def run_chunk(chunk):
    kind, descs, thin = chunk
    res = run.ChunkResult()
    sc = fsx.Scratch()
    try:
        pats = fspat.pattern_set('quick')
        from . import c06
        have = {p[0] for p in pats}
        pats = pats + [p for p in c06.relevant_patterns() if p[0] not in have]
        sub = [p for i, p in enumerate(pats) if i % (17 if thin else 9) == 0]
        for d in descs:
            check_state(d, sc, pats + LISTS, FLAGSETS_Q, res, hows=('root_dir',), thin=thin)
            check_state(d, sc, sub + LISTS, FLAGSETS_Q[:4], res, hows=('cwd', 'dir_fd'))
        res.samples.append({'tree': descs[0], 'pattern': pats[7][0], 'flags': FLAGSETS_Q[0]})
    finally:
        sc.close()
    return res


def replay(v):
    inp = v['input']
    sc = fsx.Scratch()
    cwd = os.getcwd()
    fd = None
    try:
        state = fsx.from_desc(inp['tree'])
        sc.load(state)
        model = fsx.Model(state)
        how = inp['root']
        if how == 'cwd':
            os.chdir(sc.root)
        if how == 'dir_fd':
            fd = os.open(sc.root, os.O_RDONLY | os.O_DIRECTORY)
        kw = {'root_dir': sc.root} if how == 'root_dir' else {'dir_fd': fd} if how == 'dir_fd' else {}
        fl = G.GLOBSTAR | G.REALPATH | G.DOTGLOB
        k = v['kind']
        if k == 'nonexistent-matches':
            r = G.globmatch(inp['name'], '**', flags=fl, **kw)
            return {'violates': r, 'observed': r}
        if k == 'relative-pattern-matches-absolute':
            ab = os.path.join(sc.root, inp['name_rel'])
            r = G.globmatch(ab, '**', flags=fl, **kw) or G.globmatch(ab, inp['name_rel'], flags=fl, **kw)
            return {'violates': r, 'observed': r}
        if k == 'dir-demand':
            r = G.globmatch(inp['name'], inp['pattern'], flags=fl, **kw)
            return {'violates': r != v['expected'], 'observed': r}
        got, acc = run_both(inp['patterns'], inp['exclude'], inp['flags'], sc.root, how, candidates(model, []), fd)
        if got is None:
            return {'violates': True, 'observed': 'no termination'}
        if k == 'bytes-dir_fd-differs':
            gs = set(refglob.norm(x) for x in got)
            try:
                gb = set(refglob.norm(os.fsdecode(x)) for x in G.glob(os.fsencode(inp['patterns']), flags=fscommon.gflags(inp['flags']), dir_fd=fd))
            except Exception as e:  # noqa: BLE001
                gb = type(e).__name__
            return {'violates': gb != gs, 'observed': sorted(gb) if isinstance(gb, set) else gb}
        gs = set(_anon(refglob.norm(x), sc.root) for x in got)
        as_ = set(_anon(refglob.norm(x), sc.root) for x in acc)
        return {'violates': gs != as_, 'observed': {'only_glob': sorted(gs - as_), 'only_globmatch': sorted(as_ - gs)}}
    finally:
        os.chdir(cwd)
        if fd is not None:
            os.close(fd)
        sc.close()
