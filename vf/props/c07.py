"""C07 - pattern lists, exclusions, SPLIT and BRACE decompose into single-pattern matches.

Lists are *constructed* from known pieces (inclusions, exclusions, '|'-joins, brace templates with their
expansions), so the decomposition is known by construction.  The reference language is assembled from the
executed regexes of the single pieces:  (U L(p_i)) \\ (U L_DOTMATCH(e_j)); every presentation of the list
(exclude=, inline !e / -e, any order, duplicates, '|'-joined under SPLIT, brace text under BRACE) must have
exactly that language - decided by exhaustive product-automaton exploration (all names).
"""
import itertools

from .. import bind, run, impl, langcmp
from wcmatch import glob as G, fnmatch as F, _wcmatch

ID = 'C07'
LEVEL = 'model_checking'

FN = {'N': F.NEGATE, 'M': F.MINUSNEGATE, 'A': F.NEGATEALL, 'S': F.SPLIT, 'B': F.BRACE, 'E': F.EXTMATCH, 'D': F.DOTMATCH,
      'W': F.FORCEWIN}
GL = dict(FN, G=G.GLOBSTAR, O=G.NODIR)

POOL = {
    'fn': ['*', 'a*', '.*', '*.a', '[!a]*', '@(a|b)', '!(a)', '\\!a', '\\-a', '[|]', 'a\\|b', '?(a|b)c', '[!|]a', '@(a|[|])', '@(a\\)|b)', '*(\\||a)', '@(a|\\(|b)', '[]|]', '[[:alpha:]|]', '[!]|]a', '[a\\/|b]'],
    'glob': ['*', 'a/*', '**', '**/.a', '*/', '*.a', '.*', '@(a|b)/*', '!(a)', '\\!a', '[|]/a', 'a\\|b', '@(a\\)|b)', '@(a|[)]|b)/*', '[]|]', '[[:digit:]|]/a'],
}
EXCL = {
    'fn': ['*.a', 'a*', '.*', '*', '@(a|b)', '?a', '!a'],
    'glob': ['*.a', 'a/*', '**/.a', '**', '*/', '@(a|b)/?', '!a'],
}
FLAGSETS = {
    'fn': ['E', '', 'DE'],
    'glob': ['GE', 'E', 'GDE', 'GEO'],
}
BRACES = [('{a,b}', ['a', 'b']), ('{a,.a}', ['a', '.a']), ('{1..3}', ['1', '2', '3']), ('{a,{b,c}}', ['a', 'b', 'c']),
          ('{a|b,c}', ['a|b', 'c']), ('{,a}', ['', 'a']), ('{a,a}', ['a', 'a']), ('{*,?a}', ['*', '?a']),
          ('{!a,b}', ['!a', 'b'])]
PROBES = ['a', 'ab', '.a', 'a.a', 'b', 'x/a', 'a/', '!a', 'a|b', '|']
BR_PRE = ['', 'x', '*', '!']
BR_SUF = ['', '*', '.a']


def flags_of(mode, fs):
    tab = GL if mode == 'glob' else FN
    f = 0
    for ch in fs:
        f |= tab[ch]
    return f


def ref_is_negative(text, fs):
    """From the statement: `!p`, or `-p` under MINUSNEGATE, but never a pattern starting `!(` under EXTMATCH."""
    if 'N' not in fs:
        return False
    if 'M' in fs:
        return text.startswith('-')
    if text.startswith('!'):
        return not ('E' in fs and text.startswith('!('))
    return False


def reference(mode, pieces, extra_excl, fs):
    """WcRegexp whose language is (U L(inclusion pieces)) minus (U L_DOTMATCH(exclusion pieces)), built from the
    executed regexes of the single pieces under the base flags (no NEGATE/SPLIT/BRACE)."""
    mod = G if mode == 'glob' else F
    base = ''.join(ch for ch in fs if ch not in 'NMASB')
    fl = flags_of(mode, base)
    inc = []
    exc = []
    nodir = []
    n_inc = set()
    n_exc = set()
    for p in pieces:
        if ref_is_negative(p, fs):
            body = p[1:]
            n_exc.add(body)
            exc.extend(impl.wcregexp(mod.compile(body, flags=(fl | mod.DOTMATCH) & ~GL.get('O', 0)))._include)
        else:
            n_inc.add(p)
            m = impl.wcregexp(mod.compile(p, flags=fl))
            inc.extend(m._include)
            nodir = list(m._exclude or ())
    for e in extra_excl:
        n_exc.add(e)
        exc.extend(impl.wcregexp(mod.compile(e, flags=(fl | mod.DOTMATCH) & ~GL.get('O', 0)))._include)
    if not inc and (exc or n_exc) and 'A' in fs and ('N' in fs) and not extra_excl:
        star = mod.compile('**', flags=fl | G.GLOBSTAR) if mode == 'glob' else mod.compile('*', flags=fl)
        m = impl.wcregexp(star)
        inc.extend(m._include)
        nodir = list(m._exclude or ())
        n_inc.add('<all>')
    if not inc:
        exc = []
        nodir = []
    return _wcmatch.WcRegexp(tuple(inc), tuple(exc + nodir)), len(n_inc - {'<all>'}) + ('<all>' in n_inc), len(n_exc)


def compare(mode, how, pats, ex, fs, ref, res, want_counts=None):
    mod = G if mode == 'glob' else F
    fl = flags_of(mode, fs)
    inp = {'mode': mode, 'how': how, 'patterns': pats, 'exclude': ex, 'flags': fs}
    res.n['evaluations'] += 1
    try:
        m = mod.compile(pats, flags=fl, exclude=ex)
    except Exception as e:  # noqa: BLE001
        res.add_violation(ID, run.viol('compile-raises', inp, 'compiles', {'exc': type(e).__name__, 'msg': str(e)[:80]}))
        return
    c = langcmp.equal(m, ref, False)
    res.n['states'] += c.states
    res.n['transitions'] += c.transitions
    res.n['traces_validated_against_impl'] += c.traces
    if c.mode == 'fallback':
        res.n['fallback_cases'] += 1
    if c.states > 2:
        res.n['distinct_nontrivial'] += 1
    res.outcomes.add(how + (':equal' if c.witness is None else ':differ'))
    if c.witness is not None:
        v = run.viol('decomposition', dict(inp, name=c.witness), {'match': c.accs[1]}, {'match': c.accs[0]})
        res.add_violation(ID, v)
        return
    # the public one-shot entry points (match and filter, which re-run the whole list logic per call) on probe names
    match = mod.globmatch if mode == 'glob' else mod.fnmatch
    filt = mod.globfilter if mode == 'glob' else mod.filter
    for name in PROBES:
        want = bool(ref.match(name))
        a = match(name, pats, flags=fl, exclude=ex)
        b = bool(filt([name], pats, flags=fl, exclude=ex))
        res.n['traces_validated_against_impl'] += 2
        if a != want or b != want:
            res.add_violation(ID, run.viol('decomposition', dict(inp, name=name), {'match': want}, {'match': a, 'filter': b}))
            return
    # the bytes twin of the same list decides the probe names the same way (sign of a piece, `!(` exemption)
    def _enc(x):
        return x.encode('latin-1') if isinstance(x, str) else None if x is None else [_enc(i) for i in x]
    for name in PROBES:
        want = bool(ref.match(name))
        try:
            a = match(_enc(name), _enc(pats), flags=fl, exclude=_enc(ex))
        except Exception as e:  # noqa: BLE001
            a = type(e).__name__
        res.n['traces_validated_against_impl'] += 1
        if a != want:
            res.add_violation(ID, run.viol('decomposition-bytes', dict(inp, name=name), {'match': want}, {'match': a}))
            return
    # translate(): list lengths, and the language of the returned regexes
    if True:
        try:
            pos, neg = mod.translate(pats, flags=fl, exclude=ex)
        except Exception as e:  # noqa: BLE001
            res.add_violation(ID, run.viol('translate-raises', inp, 'ok', {'exc': type(e).__name__}))
            return
        if want_counts is not None:
            np, nn = want_counts
            if 'O' in fs and np:
                nn += 1
            if (len(pos), len(neg)) != (np, nn):
                res.add_violation(ID, run.viol('translate-lengths', inp, {'pos': np, 'neg': nn}, {'pos': len(pos), 'neg': len(neg)}))
                return
        import re
        try:
            tr = _wcmatch.WcRegexp(tuple(re.compile(x) for x in pos), tuple(re.compile(x) for x in neg))
        except re.error as e:
            res.add_violation(ID, run.viol('translate-raises', inp, 'regexes compile', {'exc': 're.error', 'msg': str(e)[:60]}))
            return
        c2 = langcmp.equal(tr, ref, False)
        res.n['states'] += c2.states
        res.n['transitions'] += c2.transitions
        res.outcomes.add('translate' + (':equal' if c2.witness is None else ':differ'))
        if c2.witness is not None:
            res.add_violation(ID, run.viol('translate-decomposition', dict(inp, name=c2.witness), {'match': c2.accs[1]},
                                           {'match_by_translated_regexes': c2.accs[0]}))


def do_lists(mode, res, max_inc, max_exc, sh, ns, residue=None):
    pool, excl = POOL[mode], EXCL[mode]
    k = 0
    for fs0 in FLAGSETS[mode]:
        for ni in range(0, max_inc + 1):
            for inc in itertools.product(pool, repeat=ni):
                if ni >= 3 and residue is not None and run.residue('|'.join(inc), residue[1]) != residue[0]:
                    continue      # thorough: a seed-chosen residue class of the three-inclusion lists
                for ne in range(0, max_exc + 1):
                    if ni >= 3 and ne >= 2:
                        continue  # three inclusions with at most one exclusion, two exclusions with at most two inclusions
                    for exs in itertools.product(excl, repeat=ne):
                        if not inc and not exs:
                            continue
                        k += 1
                        if k % ns != sh:
                            continue
                        _one_list(mode, list(inc), list(exs), fs0, res)
    res.samples.append({'mode': mode, 'inclusions': pool[:2], 'exclusions': excl[:1], 'flags': FLAGSETS[mode][0]})


def _one_list(mode, inc, exs, fs0, res):
    # 'E' missing: !(a) with NEGATE would be an exclusion of "(a)": keep such pools out of inline presentations
    for neg_fs, sym in (('N', '!'), ('NM', '-')):
        fs = fs0 + neg_fs
        inline = inc + [sym + e for e in exs]
        if any(ref_is_negative(p, fs) for p in inc):
            continue
        ref, np, nn = reference(mode, inline, [], fs)
        compare(mode, 'inline-last', inline if len(inline) != 1 else inline[0], None, fs, ref, res, (np, nn))
        if exs and inc:
            compare(mode, 'inline-first', [sym + e for e in exs] + inc, None, fs, ref, res, (np, nn))
            compare(mode, 'duplicated', inline + inline[:1] + inline[-1:], None, fs, ref, res, (np, nn))
            compare(mode, 'reversed', list(reversed(inline)), None, fs, ref, res, (np, nn))
        # SPLIT: the same pieces joined by top-level '|' (a '|' inside a group is only protected under EXTMATCH)
        if 'E' in fs or not any('(' in p for p in inline):
            compare(mode, 'split', '|'.join(inline), None, fs + 'S', ref, res, (np, nn))
        if sym == '!':
            # exclude= : negation flags are switched off, '!'/'-' inclusions are literal
            refx, npx, nnx = reference(mode, inc, exs, fs0)
            if inc:
                compare(mode, 'exclude=', inc if len(inc) != 1 else inc[0], exs if len(exs) != 1 else (exs[0] if exs else None),
                        fs0, refx, res, (npx, nnx) if exs else None)
                if exs:
                    # equivalence of the two ways to give exclusions
                    compare(mode, 'exclude=vs-inline', inc, exs, fs, ref, res)
        if not inc and exs:
            # exclusions alone match nothing ... unless NEGATEALL supplies the implicit match-everything inclusion
            refa, npa, nna = reference(mode, inline, [], fs + 'A')
            compare(mode, 'negateall', inline, None, fs + 'A', refa, res, (npa, nna))
            # a trailing `|` adds an empty *inclusion* piece: the list is no longer all-negative, so NEGATEALL adds nothing
            if 'E' in fs or not any('(' in p for p in inline):
                refe, npe, nne = reference(mode, inline + [''], [], fs + 'A')
                compare(mode, 'split-trailing-empty', '|'.join(inline) + '|', None, fs + 'AS', refe, res)
                compare(mode, 'list-with-empty', inline + [''], None, fs + 'A', refe, res)
    # under NEGATE|MINUSNEGATE a leading '!' is not an exclusion
    if exs and inc:
        fs = fs0 + 'NM'
        lits = inc + ['!' + e for e in exs]
        if not any(ref_is_negative(p, fs) for p in lits):
            ref, np, nn = reference(mode, lits, [], fs)
            compare(mode, 'bang-under-minusnegate', lits, None, fs, ref, res, (np, nn))


def do_braces(mode, res):
    for fs0 in FLAGSETS[mode]:
        for pre in BR_PRE:
            for btxt, exps in BRACES:
                for suf in BR_SUF:
                    text = pre + btxt + suf
                    for extra in ('', 'S', 'N', 'NS'):
                        fs = fs0 + extra
                        pieces = []
                        for e in exps:
                            t = pre + e + suf
                            pieces.extend(t.split('|') if 'S' in fs else [t])
                        # Bash (and bracex) drop an expansion that is the empty word
                        if pre + suf == '':
                            pieces = [p for p in pieces if p != '']
                        ref, np, nn = reference(mode, pieces, [], fs)
                        compare(mode, 'brace', text, None, fs + 'B', ref, res, (np, nn))
                        # BRACE off: braces are literal text
    res.samples.append({'mode': mode, 'brace': 'x{a|b,c}*', 'pieces_with_SPLIT': ['xa', 'b*', 'xc*']})


REAL_TREE = ['d/', 'd/x', 'd/.h', 'f', '.h', 'l -> d', 'lf -> f', 'e/']
REAL_NAMES = ['d', 'd/', 'f', '.h', 'l', 'l/', 'lf', 'd/x', 'd/.h', 'zz', 'e', 'e/', 'l/x']
REAL_POOL = ['*', '**', '*/', 'd/*', '**/x', '.*', '[!a]*', '@(d|f)', '**/']
REAL_EXCL = ['*/', 'd/*', '**/', '.h', '@(d|e)/', 'l*', '**/x']


def do_realpath(res):
    """The same decomposition law through the REALPATH matching path (_Match._match_real): a name matches the list iff
    some inclusion matches it and no exclusion does, each evaluated as a single-pattern REALPATH match."""
    from .. import fsx
    sc = fsx.Scratch()
    try:
        sc.load(fsx.from_desc(REAL_TREE))
        root = sc.root
        for fs in ('GE', 'GDE', 'GEO'):
            fl = flags_of('glob', fs) | G.REALPATH
            single = {}
            for p in REAL_POOL:
                single[p] = [G.globmatch(n, p, flags=fl, root_dir=root) for n in REAL_NAMES]
            esingle = {}
            for e in REAL_EXCL:
                esingle[e] = [G.globmatch(n, e, flags=(fl | G.DOTGLOB) & ~G.NODIR, root_dir=root) for n in REAL_NAMES]
            for ni in (1, 2):
                for inc in itertools.product(REAL_POOL, repeat=ni):
                    for ne in (1, 2):
                        for exs in itertools.combinations(REAL_EXCL, ne):
                            want = [any(single[p][i] for p in inc) and not any(esingle[e][i] for e in exs) for i in range(len(REAL_NAMES))]
                            for how, pats, ex, f2 in (('exclude=', list(inc), list(exs), fl),
                                                      ('inline', list(inc) + ['!' + e for e in exs], None, fl | G.NEGATE),
                                                      ('inline-first', ['!' + e for e in exs] + list(inc), None, fl | G.NEGATE)):
                                res.n['evaluations'] += 1
                                res.n['distinct_nontrivial'] += 1
                                got = [G.globmatch(n, pats, flags=f2, exclude=ex, root_dir=root) for n in REAL_NAMES]
                                m = G.compile(pats, flags=f2, exclude=ex)
                                got2 = [m.match(n, root_dir=root) for n in REAL_NAMES]
                                kept = G.globfilter(REAL_NAMES, pats, flags=f2, exclude=ex, root_dir=root)
                                got3 = [n in kept for n in REAL_NAMES]
                                res.n['traces_validated_against_impl'] += 3 * len(REAL_NAMES)
                                if not (got == got2 == got3 == want):
                                    i = [j for j in range(len(want)) if not (got[j] == got2[j] == got3[j] == want[j])][0]
                                    res.outcomes.add('realpath:differ')
                                    res.add_violation(ID, run.viol('realpath-decomposition', {'tree': REAL_TREE, 'inclusions': list(inc),
                                                      'exclusions': list(exs), 'flags': fs, 'how': how, 'name': REAL_NAMES[i]},
                                                      {'match': want[i]}, {'globmatch': got[i], 'compiled': got2[i], 'globfilter': got3[i]}))
                                else:
                                    res.outcomes.add('realpath:equal')
        res.samples.append({'tree': REAL_TREE, 'inclusions': ['*'], 'exclusions': ['*/'], 'name': 'd'})
    finally:
        sc.close()


def plan(tier, seed):
    chunks = [('realpath',)]
    if tier == 'quick':
        mi, me = 2, 1
    else:
        mi, me = 3, 2
    NS = 24 if tier == 'quick' else 64
    residue = None if tier == 'quick' else (seed % 8, 8)
    for mode in ('fn', 'glob'):
        for sh in range(NS):
            chunks.append(('lists', mode, mi, me, sh, NS, residue))
        chunks.append(('braces', mode))
    return {
        'chunks': chunks,
        'coverage': {'pools': POOL, 'exclusion_pool': EXCL, 'flagsets': FLAGSETS, 'max_inclusions': mi,
                     'max_exclusions': me, 'brace_templates': [b for b, _ in BRACES], 'exhaustive': tier == 'quick',
                     'partial_layer': None if tier == 'quick' else 'lists of three inclusions: residue class %d of 8 (by seed), with at most '
                     'one exclusion; lists with two exclusions have at most two inclusions; everything smaller is complete' % (seed % 8),
                     'presentations': ['inline-last', 'inline-first', 'duplicated', 'reversed', 'split', 'exclude=',
                                       'exclude=vs-inline', 'negateall', 'bang-under-minusnegate', 'brace']},
        'rule': 'every ordered list of up to max_inclusions pool patterns and up to max_exclusions exclusion patterns x '
                'flag set x presentation; every brace template x prefix x suffix x {SPLIT, NEGATE}; each compared (all '
                'names, product exploration) with the language assembled from the single-piece regexes; non-trivial = '
                'product with more than two states',
        'assumptions': ['single-piece semantics are taken from the library itself (C01/C02 decide those); this check '
                        'decides only the decomposition laws'],
        'nontrivial_floor': 300,
    }


WIN_PIECES = ['[a\\\\|b]', '[\\\\|]', 'x[!\\\\|]', '[|\\\\]*', '@([\\\\|]|c)', '[a\\/|b]']


def do_winsplit(res):
    """Windows rules without path names (fnmatch): a bracket expression holding an escaped backslash or slash is a
    bracket, so a `|` inside it never splits; lists of such pieces decompose like any other."""
    for fs0 in ('EW', 'W', 'DEW'):
        for a in WIN_PIECES:
            if 'E' not in fs0 and '(' in a:
                continue
            for b in (None, 'c', '*.a', WIN_PIECES[0]):
                pieces = [a] if b is None else [a, b]
                ref, np, nn = reference('fn', pieces, [], fs0)
                compare('fn', 'split', '|'.join(pieces), None, fs0 + 'S', ref, res, (np, nn))
                if b is not None:
                    compare('fn', 'list', pieces, None, fs0, ref, res, (np, nn))
                    refx, npx, nnx = reference('fn', [a], [b], fs0)
                    compare('fn', 'split', a + '|!' + b, None, fs0 + 'NS', refx, res, (npx, nnx))
    res.samples.append({'winsplit': WIN_PIECES[0], 'flags': 'EWS'})


def run_chunk(chunk):
    res = run.ChunkResult()
    if chunk[0] == 'realpath':
        do_realpath(res)
        do_winsplit(res)
    elif chunk[0] == 'lists':
        _k, mode, mi, me, sh, ns, residue = chunk
        do_lists(mode, res, mi, me, sh, ns, residue)
    else:
        do_braces(chunk[1], res)
    impl.clear()
    return res


def replay(v):
    inp = v['input']
    if v['kind'] == 'realpath-decomposition':
        from .. import fsx
        sc = fsx.Scratch()
        try:
            sc.load(fsx.from_desc(inp['tree']))
            root = sc.root
            fl = flags_of('glob', inp['flags']) | G.REALPATH
            n = inp['name']
            inc, exs = inp['inclusions'], inp['exclusions']
            want = any(G.globmatch(n, p, flags=fl, root_dir=root) for p in inc) and not any(
                G.globmatch(n, e, flags=(fl | G.DOTGLOB) & ~G.NODIR, root_dir=root) for e in exs)
            if inp['how'] == 'exclude=':
                pats, ex, f2 = inc, exs, fl
            elif inp['how'] == 'inline':
                pats, ex, f2 = inc + ['!' + e for e in exs], None, fl | G.NEGATE
            else:
                pats, ex, f2 = ['!' + e for e in exs] + inc, None, fl | G.NEGATE
            a = G.globmatch(n, pats, flags=f2, exclude=ex, root_dir=root)
            b = G.compile(pats, flags=f2, exclude=ex).match(n, root_dir=root)
            c = n in G.globfilter([n], pats, flags=f2, exclude=ex, root_dir=root)
            return {'violates': not (a == b == c == want), 'observed': {'globmatch': a, 'compiled': b, 'globfilter': c}}
        finally:
            sc.close()
    mod = G if inp['mode'] == 'glob' else F
    fl = flags_of(inp['mode'], inp['flags'])
    if v['kind'] == 'translate-lengths':
        pos, neg = mod.translate(inp['patterns'], flags=fl, exclude=inp['exclude'])
        got = {'pos': len(pos), 'neg': len(neg)}
        return {'violates': got != v['expected'], 'observed': got}
    if v['kind'] in ('compile-raises', 'translate-raises'):
        try:
            (mod.compile if v['kind'] == 'compile-raises' else mod.translate)(inp['patterns'], flags=fl, exclude=inp['exclude'])
            return {'violates': False, 'observed': 'ok'}
        except Exception as e:  # noqa: BLE001
            return {'violates': True, 'observed': type(e).__name__}
    match = mod.globmatch if inp['mode'] == 'glob' else mod.fnmatch
    filt = mod.globfilter if inp['mode'] == 'glob' else mod.filter
    if v['kind'] == 'translate-decomposition':
        import re
        pos, neg = mod.translate(inp['patterns'], flags=fl, exclude=inp['exclude'])
        n = inp['name']
        got = any(re.compile(x).fullmatch(n) for x in pos) and not any(re.compile(x).fullmatch(n) for x in neg)
        return {'violates': bool(got) != v['expected']['match'], 'observed': {'match_by_translated_regexes': bool(got)}}
    if v['kind'] == 'decomposition-bytes':
        def _enc(x):
            return x.encode('latin-1') if isinstance(x, str) else None if x is None else [_enc(i) for i in x]
        try:
            a = match(_enc(inp['name']), _enc(inp['patterns']), flags=fl, exclude=_enc(inp['exclude']))
        except Exception as e:  # noqa: BLE001
            a = type(e).__name__
        return {'violates': a != v['expected']['match'], 'observed': {'match': a}}
    a = match(inp['name'], inp['patterns'], flags=fl, exclude=inp['exclude'])
    b = bool(filt([inp['name']], inp['patterns'], flags=fl, exclude=inp['exclude']))
    want = v['expected']['match']
    return {'violates': a != want or b != want, 'observed': {'match': a, 'filter': b}}
