"""Finite alphabet of representative code points that loses no names (DESIGN 3.2).

Every atom (of the implementation regexes, the reference automata and the domain trackers) is a finite union
of intervals, possibly closed under ASCII case.  Candidates = all interval end points and their neighbours
(+-1), fixed probes, and (for ranges under IGNORECASE) the ASCII letter block borders.  Two code points with
the same membership vector over all atoms are interchangeable in every automaton; one representative per
vector is kept.  Every code point outside the candidate set lies in a gap between two consecutive end points
and has the vector of the candidate `end point + 1` of that gap.
"""
import unicodedata

PROBES_STR = (0x00, 0x0a, 0x2e, 0x2f, 0x5c, 0x2d, 0x21, 0x7e, 0x61, 0x41, 0x7a, 0x5a, 0x30, 0x5f, 0x7f, 0x80,
              0xd7, 0x4e2d, 0x10ffff)
PROBES_BYTES = (0x00, 0x0a, 0x2e, 0x2f, 0x5c, 0x2d, 0x21, 0x7e, 0x61, 0x41, 0x7a, 0x5a, 0x30, 0x5f, 0x7f, 0x80,
                0xd7, 0xff)


class SetAtom:
    """Reference-side atom: explicit interval list, optional ASCII case closure, optional negation."""

    __slots__ = ('ranges', 'neg', 'ic', 'key')

    def __init__(self, ranges, neg=False, ic=False):
        self.ranges = tuple(sorted((int(a), int(b)) for a, b in ranges))
        self.neg = bool(neg)
        self.ic = bool(ic)
        self.key = ('SET', self.ranges, self.neg, self.ic)

    def _in(self, c):
        for a, b in self.ranges:
            if a <= c <= b:
                return True
        return False

    def member(self, c):
        hit = self._in(c)
        if not hit and self.ic:
            s = _swap(c)
            if s != c:
                hit = self._in(s)
        return hit != self.neg

    def endpoints(self):
        pts = set()
        for a, b in self.ranges:
            pts.add(a)
            pts.add(b)
        if self.ic:
            pts |= {_swap(p) for p in pts}
            for a, b in self.ranges:
                if a != b:
                    pts |= {0x41, 0x5a, 0x61, 0x7a}
                    for lo, hi in ((0x41, 0x5a), (0x61, 0x7a)):
                        l2, h2 = max(lo, a), min(hi, b)
                        if l2 <= h2:
                            pts.add(_swap(l2))
                            pts.add(_swap(h2))
        return pts


def _swap(c):
    if 0x41 <= c <= 0x5a:
        return c + 32
    if 0x61 <= c <= 0x7a:
        return c - 32
    return c


def _cased(c):
    if c < 0x80:
        return False
    ch = chr(c)
    return ch.lower() != ch or ch.upper() != ch or ch.casefold() != ch or unicodedata.category(ch) in ('Lu', 'Ll', 'Lt')


_cache = {}


def minterms(atoms, is_bytes=False, extra=(), any_ic=None):
    """Return a list of representative code points, one per distinct membership vector over `atoms`.

    atoms: iterable of objects with .member(cp), .endpoints(), .key
    """
    atoms = list({a.key: a for a in atoms}.values())
    ck = (tuple(sorted(map(repr, (a.key for a in atoms)))), is_bytes, tuple(extra))
    r = _cache.get(ck)
    if r is not None:
        return r
    top = 0xff if is_bytes else 0x10ffff
    cand = set(PROBES_BYTES if is_bytes else PROBES_STR)
    cand.update(extra)
    ic = any_ic if any_ic is not None else any(getattr(a, 'ic', False) for a in atoms)
    for a in atoms:
        for p in a.endpoints():
            cand.add(p)
            cand.add(p - 1)
            cand.add(p + 1)
    cand = sorted(c for c in cand if 0 <= c <= top)
    classes = {}
    for c in cand:
        if not is_bytes and 0xd800 <= c <= 0xdfff:
            continue
        vec = tuple(a.member(c) for a in atoms)
        cur = classes.get(vec)
        if cur is None:
            classes[vec] = c
        elif ic and not is_bytes and _cased(cur) and not _cased(c):
            classes[vec] = c
        elif _rank(c) < _rank(cur) and not (ic and not is_bytes and _cased(c)):
            classes[vec] = c
    reps = sorted(classes.values())
    if ic and not is_bytes:
        # cased non-ASCII code points are outside the claim under IGNORECASE (DESIGN 3.2)
        reps = [c for c in reps if not _cased(c)]
    if len(_cache) > 20000:
        _cache.clear()
    _cache[ck] = reps
    return reps


def _rank(c):
    """Prefer readable representatives."""
    if 0x61 <= c <= 0x7a:
        return 0
    if 0x41 <= c <= 0x5a:
        return 1
    if 0x30 <= c <= 0x39:
        return 2
    if 0x21 <= c <= 0x7e:
        return 3
    return 4 + c


def to_text(indices, alphabet, is_bytes=False):
    if is_bytes:
        return bytes(alphabet[i] for i in indices)
    return ''.join(chr(alphabet[i]) for i in indices)
