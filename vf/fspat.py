"""Pattern sets for the file-system explorers (DESIGN 4.2): ASTs built from a segment menu."""
from . import pat

L = pat.lit
A, B, DOT, H = L('a'), L('b'), L('.'), L('h')
STAR, Q = pat.STAR, pat.Q
SEP = ('sep', 1, False)
SEP2 = ('sep', 2, False)


def ext(kind, *alts):
    return ('ext', kind, tuple(tuple(a) for a in alts))


SEGS_FULL = {
    'a': (A,), 'b': (B,), '.h': (DOT, H), '.*': (DOT, STAR), '*': (STAR,), '?': (Q,), '[ab]': (pat.br('[ab]'),),
    '[!a]': (pat.br('[!a]'),), '@(a|b)': (ext('@', [A], [B]),), '!(a)': (ext('!', [A]),), '?(a)*': (ext('?', [A]), STAR),
    '*?': (STAR, Q), '*.h': (STAR, DOT, H), 'a*': (A, STAR), '**': (('star', 2),), '***': (('star', 3),),
    '.': (DOT,), '..': (DOT, DOT), '*(a|b)': (ext('*', [A], [B]),), '+(?)': (ext('+', [Q]),), '.?': (DOT, Q),
    '[.]h': (pat.br('[.]'), H), '..a': (DOT, DOT, A), '...': (DOT, DOT, DOT),
}
CORE = ['a', '*', '**', '.h', '?']
CASE_SEGS = {'A': (L('A'),), '[aA]': (pat.br('[aA]'),), 'a': (A,), '*': (STAR,), '**': (('star', 2),), 'A*': (L('A'), STAR)}


def build(names, table, trailing=False, prefix=()):
    seq = list(prefix)
    for i, n in enumerate(names):
        if i:
            seq.append(SEP)
        seq.extend(table[n])
    if trailing:
        seq.append(SEP)
    return tuple(seq)


def pattern_set(level='quick', rootname='r'):
    """-> list of (text, ast, tags). tags: set of strings ('neg', 'bashable', ...)"""
    out = []
    seen = set()

    def add(ast, **tags):
        text = pat.render(ast)
        if text in seen:
            return
        seen.add(text)
        t = set(k for k, v in tags.items() if v)
        if pat.has_ext(ast, '!'):
            t.add('neg')
        if '***' in text:
            t.add('gl')
        if '**' in text:
            t.add('gstar')
        out.append((text, ast, t))

    full = list(SEGS_FULL)
    for a in full:
        add(build([a], SEGS_FULL))
        add(build([a], SEGS_FULL, trailing=True))
    for a in full:
        for b in full:
            add(build([a, b], SEGS_FULL))
    two_tr = full if level != 'quick' else ['a', '*', '**', '.h', '?', '@(a|b)', '.', '..', '***', '.*']
    for a in two_tr:
        for b in two_tr:
            add(build([a, b], SEGS_FULL, trailing=True))
    core3 = CORE if level == 'quick' else CORE + ['..', '@(a|b)', '.*', '***']
    for a in core3:
        for b in core3:
            for c in core3:
                add(build([a, b, c], SEGS_FULL))
    # two globstar groups separated by literal / wildcard segments (the link check has to restart per group)
    for names in (['**', 'a', '**', 'a'], ['**', 'a', '**', '*'], ['**', 'b', '**', 'a'], ['*', '**', 'a', '**'], ['a', '**', 'a', '**'],
                  ['**', '*', '**', 'a'], ['**', 'a', '*', '**'], ['***', 'a', '**', 'a'], ['**', 'a', '***', 'a'], ['**', 'b', '**'],
                  ['b', '**', 'b', '**'], ['**', 'a', '**', 'b', '**']):
        add(build(names, SEGS_FULL))
    add(build(['**', 'a', '**'], SEGS_FULL, trailing=True))
    # spelling variants: leading ./ , ../<root>/ , duplicate separators
    base = ['a', '*', '**', 'a/*', '*/a', '**/a', 'a/**', '.h', '*/']
    for a in ['a', '*', '**', '.h', '?', '.*', '@(a|b)']:
        add((DOT, SEP) + build([a], SEGS_FULL), dotslash=True)
        add((DOT, SEP) + build([a, '*'], SEGS_FULL), dotslash=True)
        add((DOT, DOT, SEP) + tuple(L(c) for c in rootname) + (SEP,) + build([a], SEGS_FULL), updown=True)
        seq = list(build([a, '*'], SEGS_FULL))
        seq = [SEP2 if nd == SEP else nd for nd in seq]
        add(tuple(seq), dupsep=True)
        seq = list(build(['a', a], SEGS_FULL, trailing=True)) + []
        seq[-1] = SEP2
        add(tuple(seq), dupsep=True)
    return out
