"""Reference glob walker: interprets a pattern AST segment by segment against the *model* of a tree (DESIGN 4.2).

Independent of wcmatch and of os.DirEntry: directory contents, link resolution and existence come from
fsx.Model; segment matching comes from the labelled reference NFA of ref_aut (three-valued on hidden names).
Returns {normalised path: 'must' | 'may'}.
"""
from . import ref_aut, pat

FS_CHARS = 'abAhlrz.cdexsp \\*[]!(){},|~-'
FS_ALPHA = sorted(set(ord(c) for c in FS_CHARS) | {0x01})
MODE_CS = ref_aut.Mode(ic=False, path=True)
MODE_IC = ref_aut.Mode(ic=True, path=True)

_seg_cache = {}


class SegMatcher:
    """Decides  name in L(segment)  and which kind of token can consume a leading dot."""

    def __init__(self, seg, ic):
        self.n = n = ref_aut.RefNFA(FS_ALPHA, MODE_IC if ic else MODE_CS)
        self.s = n.new()
        self.f = n.seq(seg, self.s, True)
        self.idx = {c: i for i, c in enumerate(FS_ALPHA)}
        self._memo = {}

    def leads(self, name):
        """Set of lead labels of accepting runs: 0 (name does not start with '.'), LAB_DOT1, LAB_DOT or LAB_WILD.
        Empty set = no match.  For an all-dots name ('.', '..') also reports whether all dots were written."""
        r = self._memo.get(name)
        if r is not None:
            return r
        n = self.n
        cur = {(q, -1, True) for q in n.eclose({self.s})}
        for pos, ch in enumerate(name):
            ci = self.idx.get(ord(ch), self.idx[0x01])
            nxt = set()
            for q, lead, allw in cur:
                for mask, t, lab in n.tr[q]:
                    if (mask >> ci) & 1:
                        nl = lead
                        if pos == 0:
                            nl = lab if ch == '.' else 0
                        na = allw and (lab in (ref_aut.LAB_DOT, ref_aut.LAB_DOT1) or ch != '.')
                        for t2 in n.eclose({t}):
                            nxt.add((t2, nl, na))
            cur = nxt
            if not cur:
                break
        r = {(lead, allw) for q, lead, allw in cur if q == self.f}
        self._memo[name] = r
        return r


def seg_matcher(seg, ic):
    key = (seg, ic)
    m = _seg_cache.get(key)
    if m is None:
        if len(_seg_cache) > 5000:
            _seg_cache.clear()
        m = _seg_cache[key] = SegMatcher(seg, ic)
    return m


class Flags:
    def __init__(self, fs):
        self.G = 'G' in fs or 'L' in fs
        self.L = 'L' in fs
        self.D = 'D' in fs
        self.E = 'E' in fs
        self.F = 'F' in fs              # FOLLOW
        self.X = 'X' in fs
        self.SD = 'Y' in fs             # SCANDOTDIR
        self.Z = 'Z' in fs
        self.I = 'I' in fs and 'C' not in fs
        self.O = 'O' in fs
        self.B = 'R' in fs              # implicit recursive prefix (rglob / _EXTMATCHBASE)


def is_literal(seg):
    return all(nd[0] == 'lit' and not nd[2] for nd in seg)


def seg_text(seg):
    return ''.join(nd[1] for nd in seg)


def decide(seg, name, fl):
    """'must' / 'may' / None for an entry name against a magic segment (C02 language + C03 hidden rule)."""
    leads = seg_matcher(seg, fl.I).leads(name)
    if not leads:
        return None
    if name in ('.', '..'):
        # only reachable under SCANDOTDIR: a segment pattern starting with a written '.' may match, nothing must
        if fl.Z:
            return 'may' if any(a for l, a in leads) else None
        return 'may' if any(l in (ref_aut.LAB_DOT, ref_aut.LAB_DOT1) for l, a in leads) else None
    if name[0] != '.' or fl.D:
        return 'must'
    ls = {l for l, a in leads}
    if ref_aut.LAB_DOT1 in ls:
        return 'must'
    if ref_aut.LAB_DOT in ls:
        return 'may'
    return None


def join(cur, name):
    return name if cur == '' else (cur + name if cur.endswith('/') else cur + '/' + name)


IMPLICIT3 = (('star', 3), ('implicit',))
IMPLICIT2 = (('star', 2), ('implicit',))


def _is_gstar(seg, pf):
    return seg is IMPLICIT2 or seg is IMPLICIT3 or ref_aut.is_gstar(seg, pf)


def ref_glob(model, seq, fl, limit=20000):
    """-> dict {path: 'must'|'may'} ; raises RecursionError-free, bounded by `limit` emitted paths."""
    ast = seq if fl.E else pat.desugar(seq)
    absolute, segs, trailing = ref_aut.split_segments(ast)
    has_sep = any(nd[0] == 'sep' for nd in ast)
    pf = ref_aut.PathFlags(globstar=fl.G, globstarlong=fl.L)
    if absolute:
        raise ValueError('absolute patterns are handled by the caller')
    if ((fl.X and not has_sep) or fl.B) and segs:
        segs = [(IMPLICIT3 if (fl.L and fl.F) else IMPLICIT2)] + list(segs)
    out = {}
    n = len(segs)

    def emit(p, st):
        if fl.O and model.isdir(p):
            return
        if len(out) > limit:
            raise OverflowError('reference result too large')
        key = p
        if out.get(key) != 'must':
            out[key] = st

    def weaker(a, b):
        return 'may' if 'may' in (a, b) else 'must'

    def descend(cur, follow):
        """All (path, isdir) entries below cur at depth >= 1 that a globstar reaches."""
        res = []
        stack = [cur]
        seen_depth = 0
        while stack:
            d = stack.pop()
            ents = model.listdir(d if d else '.')
            if ents is None:
                continue
            for e in ents:
                if e[0] == '.' and not fl.D:
                    continue
                p = join(d, e)
                isd = model.isdir(p)
                res.append((p, isd))
                if len(res) > limit:
                    raise OverflowError('globstar descent too large')
                if isd and (follow or not model.islink(p)):
                    stack.append(p)
        return res

    def walk(cur, i, st):
        seg = segs[i]
        if _is_gstar(seg, pf):
            j = i
            while j + 1 < n and _is_gstar(segs[j + 1], pf):
                j += 1
            # consecutive globstars merge; the merged one follows links if any member (`***`) does
            k = max(segs[x][0][1] for x in range(i, j + 1))
            follow = (fl.F and not fl.L) or k == 3
            last = j == n - 1
            below = descend(cur, follow)
            if last:
                if cur != '':
                    emit(cur if cur.endswith('/') else cur + '/', st)
                for p, isd in below:
                    if trailing and not isd:
                        continue
                    emit(p, st)
            else:
                walk(cur, j + 1, st)
                for p, isd in below:
                    # a symlinked directory is matched by `**` but never continued from unless links are followed
                    if isd and (follow or not model.islink(p)):
                        walk(p, j + 1, st)
            return
        last = i == n - 1
        need_dir = (not last) or trailing
        if is_literal(seg) and (not fl.I or seg_text(seg) in ('.', '..')):
            name = seg_text(seg)
            p = join(cur, name)
            if name in ('.', '..'):
                ok = model.isdir(cur if cur else '.') and model.kind_follow(p) == 'd'
                if not ok:
                    return
                if last:
                    emit(p, st)
                else:
                    walk(p, i + 1, st)
                return
            if last:
                if model.lexists(p) and (not need_dir or model.isdir(p)):
                    emit(p, st)
            elif model.isdir(p):
                walk(p, i + 1, st)
            return
        ents = model.listdir(cur if cur else '.')
        if ents is None:
            return
        cand = list(ents)
        if fl.SD:
            cand = ['.', '..'] + cand
        for e in cand:
            if e in ('.', '..') and model.kind_follow(join(cur, e)) != 'd':
                continue
            if is_literal(seg):
                d = 'must' if e.lower() == seg_text(seg).lower() else None
            else:
                d = decide(seg, e, fl)
            if d is None:
                continue
            p = join(cur, e)
            if need_dir and not model.isdir(p):
                continue
            if last:
                emit(p, weaker(st, d))
            else:
                walk(p, i + 1, weaker(st, d))

    if n:
        walk('', 0, 'must')
    return out


def norm(p):
    """Comparison form: separator runs collapsed, trailing separators stripped (but '/' kept for a bare root)."""
    while '//' in p:
        p = p.replace('//', '/')
    if len(p) > 1 and p.endswith('/'):
        p = p.rstrip('/') or '/'
    return p
