"""Reference automata built from pattern ASTs - never from wcmatch (DESIGN 3.3).

A forward eps-NFA over alphabet classes whose consuming transitions carry a label:
  LAB_WILD  the character is consumed by a wildcard construct (* ? [..] or the body of !(..))
  LAB_LIT   consumed by a written literal character other than '.'
  LAB_DOT   consumed by a written '.' (raw or backslash-escaped)
  LAB_DOT1  consumed by a written '.' that is the first token of its segment (no wildcard at that position)
The plain language ignores the labels; C03 derives its three-valued reference from them.
"""
from . import alphabet as alph

LAB_WILD, LAB_LIT, LAB_DOT, LAB_DOT1 = 0, 1, 2, 3


class Mode:
    """Reference reading mode."""

    def __init__(self, ic=False, path=False, win=False, is_bytes=False):
        self.ic = ic
        self.path = path
        self.win = win
        self.is_bytes = is_bytes
        self.seps = (0x2f, 0x5c) if win else (0x2f,)


def collect_atoms(seq, mode, out=None):
    """SetAtoms for every consuming construct of the AST (used to compute the shared alphabet)."""
    if out is None:
        out = []
    for nd in seq:
        k = nd[0]
        if k == 'lit':
            out.append(alph.SetAtom([(ord(nd[1]), ord(nd[1]))], False, mode.ic))
        elif k == 'br':
            out.append(alph.SetAtom(nd[3], nd[2], mode.ic))
        elif k == 'ext':
            for a in nd[2]:
                collect_atoms(a, mode, out)
    return out


def base_atoms(mode):
    """Atoms of the domain/tracker automata: '.', newline, separators."""
    out = [alph.SetAtom([(0x2e, 0x2e)]), alph.SetAtom([(0x0a, 0x0a)])]
    if mode.path:
        for s in mode.seps:
            out.append(alph.SetAtom([(s, s)]))
    return out


class RefNFA:
    def __init__(self, alphabet, mode):
        self.alphabet = alphabet
        self.mode = mode
        self.nsym = len(alphabet)
        self.eps = []
        self.tr = []       # tr[q] = [(class mask, target, label)]
        self.all_mask = (1 << self.nsym) - 1
        self.sep_mask = 0
        if mode.path:
            for i, c in enumerate(alphabet):
                if c in mode.seps:
                    self.sep_mask |= 1 << i
        self.nonsep_mask = self.all_mask & ~self.sep_mask
        self.dot_mask = 0
        for i, c in enumerate(alphabet):
            if c == 0x2e:
                self.dot_mask |= 1 << i
        self._mask_cache = {}

    def new(self):
        self.eps.append([])
        self.tr.append([])
        return len(self.eps) - 1

    def mask_of(self, atom):
        m = self._mask_cache.get(atom.key)
        if m is None:
            m = 0
            for i, c in enumerate(self.alphabet):
                if atom.member(c):
                    m |= 1 << i
            self._mask_cache[atom.key] = m
        return m

    # ------------------------------------------------------------ construction
    def seq(self, items, s, seg_first=False):
        """Build a sequence from state s, return its end state. seg_first: s is at the start of a segment."""
        cur = s
        first = seg_first
        for nd in items:
            cur = self.node(nd, cur, first)
            first = False
        return cur

    def node(self, nd, s, seg_first):
        k = nd[0]
        wild = self.nonsep_mask   # what wildcards may consume (everything but separators in path mode)
        if k == 'lit':
            c = ord(nd[1])
            m = self.mask_of(alph.SetAtom([(c, c)], False, self.mode.ic))
            e = self.new()
            if c == 0x2e:
                lab = LAB_DOT1 if seg_first else LAB_DOT
            else:
                lab = LAB_LIT
            if m:
                self.tr[s].append((m, e, lab))
            return e
        if k == 'q':
            e = self.new()
            self.tr[s].append((wild, e, LAB_WILD))
            return e
        if k == 'star':
            e = self.new()
            self.eps[s].append(e)
            self.tr[e].append((wild, e, LAB_WILD))
            return e
        if k == 'br':
            m = self.mask_of(alph.SetAtom(nd[3], nd[2], self.mode.ic)) & wild
            e = self.new()
            if m:
                self.tr[s].append((m, e, LAB_WILD))
            return e
        if k == 'ext':
            kind, alts = nd[1], nd[2]
            if kind == '!':
                return self.negated(alts, s)
            a0 = self.new()
            e = self.new()
            self.eps[s].append(a0)
            for a in alts:
                x = self.new()
                self.eps[a0].append(x)
                # an alternative that opens the segment keeps the "first token" property for its own first token,
                # but only on the first iteration of a repeated group; approximate by a separate first copy
                y = self.seq(a, x, seg_first)
                self.eps[y].append(e)
            if kind in '?*':
                self.eps[a0].append(e)
            if kind in '*+':
                if seg_first:
                    # later iterations are not at the segment start: build a second copy for them
                    b0 = self.new()
                    self.eps[e].append(b0)
                    e2 = self.new()
                    for a in alts:
                        x = self.new()
                        self.eps[b0].append(x)
                        y = self.seq(a, x, False)
                        self.eps[y].append(e2)
                    self.eps[e2].append(b0)
                    self.eps[e2].append(e)
                    # e must not loop to a0 (first copy) again
                else:
                    self.eps[e].append(a0)
            return e
        if k == 'sep':
            # a separator inside a bracket/group alternative can never be matched there
            return self.new()
        raise ValueError(nd)

    def negated(self, alts, s):
        """Embed the complement (relative to wildcard-consumable strings) of the union of the alternatives."""
        sub = RefNFA(self.alphabet, self.mode)
        s0 = sub.new()
        f = sub.new()
        for a in alts:
            x = sub.new()
            sub.eps[s0].append(x)
            y = sub.seq(a, x)
            sub.eps[y].append(f)
        rows, acc = sub.determinize(s0, f)
        m = [self.new() for _ in rows]
        e = self.new()
        wild = self.nonsep_mask
        for d, row in enumerate(rows):
            # group classes by target
            bytgt = {}
            for ci, t in enumerate(row):
                if (wild >> ci) & 1:
                    bytgt[t] = bytgt.get(t, 0) | (1 << ci)
            for t, mask in bytgt.items():
                self.tr[m[d]].append((mask, m[t], LAB_WILD))
            if d not in acc:
                self.eps[m[d]].append(e)
        self.eps[s].append(m[0])
        return e

    # ------------------------------------------------------------ subset construction (forward)
    def eclose(self, S):
        st = list(S)
        S = set(S)
        while st:
            q = st.pop()
            for t in self.eps[q]:
                if t not in S:
                    S.add(t)
                    st.append(t)
        return frozenset(S)

    def determinize(self, s0, final):
        start = self.eclose({s0})
        ids = {start: 0}
        order = [start]
        rows = []
        i = 0
        while i < len(order):
            S = order[i]
            i += 1
            row = []
            for ci in range(self.nsym):
                T = set()
                for q in S:
                    for mask, t, _lab in self.tr[q]:
                        if (mask >> ci) & 1:
                            T.add(t)
                T = self.eclose(T)
                j = ids.get(T)
                if j is None:
                    j = ids[T] = len(order)
                    order.append(T)
                row.append(j)
            rows.append(row)
        acc = {j for S, j in ids.items() if final in S}
        return rows, acc


class RevDFA:
    """Reverse subset construction: state = bit set of NFA states from which `final` is reachable on the suffix."""

    def __init__(self, nfa, start, final, label_filter=None):
        self.nfa = nfa
        n = len(nfa.eps)
        self.reps = [0] * n
        for q in range(n):
            for t in nfa.eps[q]:
                self.reps[t] |= 1 << q
        # per class: list of (target bit, mask of sources)
        self.rtr = []
        for ci in range(nfa.nsym):
            d = {}
            for q in range(n):
                for mask, t, lab in nfa.tr[q]:
                    if (mask >> ci) & 1 and (label_filter is None or label_filter(lab)):
                        d[t] = d.get(t, 0) | (1 << q)
            self.rtr.append([(1 << t, m) for t, m in d.items()])
        self.start_bit = 1 << start
        self.init = self.rclose(1 << final)
        self._step = {}

    def rclose(self, S):
        work = S
        while work:
            low = work & -work
            q = low.bit_length() - 1
            work &= ~low
            new = self.reps[q] & ~S
            S |= new
            work |= new
        return S

    def step(self, S, ci):
        key = (S, ci)
        r = self._step.get(key)
        if r is None:
            T = 0
            for tb, m in self.rtr[ci]:
                if S & tb:
                    T |= m
            r = self._step[key] = self.rclose(T)
        return r

    def accepting(self, S):
        return bool(S & self.start_bit)


def fnmatch_ref(seq, alphabet, mode):
    """Reference automaton (reading right-to-left) of an fnmatch-mode pattern, dot rules ignored (L_full)."""
    n = RefNFA(alphabet, mode)
    s = n.new()
    f = n.seq(seq, s, True)
    return RevDFA(n, s, f), n, s, f


class Domain:
    """Tracker automaton over the reversed subject: remembers the *first* character class of the name (i.e. the last
    one read) and emptiness.  State: -1 = empty, else the class index read last."""

    def __init__(self, pred):
        self.init = -1
        self.pred = pred

    def step(self, S, ci):
        return ci

    def accepting(self, S):
        return self.pred(S)


# ================================================================ path mode (DESIGN 6 C02)

class PathFlags:
    def __init__(self, globstar=False, globstarlong=False, matchbase=False, dotglob=False, nodir=False,
                 extmatchbase=False):
        self.globstar = globstar or globstarlong
        self.globstarlong = globstarlong
        self.matchbase = matchbase
        self.dotglob = dotglob
        self.nodir = nodir
        self.extmatchbase = extmatchbase


def split_segments(seq):
    """-> (absolute, [segments], trailing)"""
    absolute = False
    segs = []
    cur = []
    trailing = False
    for i, nd in enumerate(seq):
        if nd[0] == 'sep':
            if i == 0:
                absolute = True
            elif cur:
                segs.append(tuple(cur))
                cur = []
            trailing = True
        else:
            cur.append(nd)
            trailing = False
    if cur:
        segs.append(tuple(cur))
    if not segs:
        trailing = False
    return absolute, segs, trailing


def is_gstar(seg, pf):
    if len(seg) != 1 or seg[0][0] != 'star':
        return False
    k = seg[0][1]
    return (k == 2 and pf.globstar) or (k == 3 and pf.globstarlong)


class PathRef:
    """Forward reference NFA of a path-mode pattern with segment semantics; .dfa reads right-to-left."""

    def __init__(self, seq, alphabet, mode, pf, hidden_aware=False):
        self.n = n = RefNFA(alphabet, mode)
        self.pf = pf
        self.hidden_aware = hidden_aware
        absolute, segs, trailing = split_segments(seq)
        has_sep = any(nd[0] == 'sep' for nd in seq)
        self.absolute = absolute
        # merge consecutive globstars
        merged = []
        for sg in segs:
            g = is_gstar(sg, pf)
            if g and merged and merged[-1][0]:
                continue
            merged.append((g, sg))
        implicit = (pf.matchbase and not has_sep and segs) or (pf.extmatchbase and not absolute and segs)
        if implicit and not (merged and merged[0][0]):
            merged.insert(0, (True, None))
        self.starts_gstar = bool(merged and merged[0][0])
        # "a trailing separator on the pattern demands a directory-style path (except after a final `**`)":
        # after a final globstar the written separator demands nothing, `a/**/` denotes what `a/**` denotes
        self.ends_gstar_slash = False
        self.start = s = n.new()
        if absolute:
            s = self._sepplus(s)
        for i, (g, sg) in enumerate(merged):
            last = i == len(merged) - 1
            if not g:
                e = self._segment(sg, s)
                s = e if last else self._sepplus(e)
            elif not last:
                # (H sep+)*
                h = self._H(s)
                back = self._sepplus(h)
                n.eps[back].append(s)
            else:
                # eps | H (sep+ H)*
                end = n.new()
                n.eps[s].append(end)
                h = self._H(s)
                n.eps[h].append(end)
                s2 = self._sepplus(h)
                h2 = self._H(s2)
                n.eps[h2].append(h)
                s = end
        if trailing and not (merged and merged[-1][0]):
            s = self._sepplus(s)
        # trailing separators on the path are always tolerated
        fin = n.new()
        n.eps[s].append(fin)
        if n.sep_mask:
            n.tr[fin].append((n.sep_mask, fin, LAB_LIT))
        self.final = s = fin
        self.dfa = RevDFA(n, self.start, self.final)

    def _sepplus(self, s):
        n = self.n
        s1 = n.new()
        n.eps[s].append(s1)
        e = n.new()
        if n.sep_mask:
            n.tr[s1].append((n.sep_mask, e, LAB_LIT))
            n.tr[e].append((n.sep_mask, e, LAB_LIT))
        e2 = n.new()
        n.eps[e].append(e2)
        return e2

    def _segment(self, sg, s):
        """L(segment) intersected with (non-separator)+ ; appended after state s, returns end state."""
        n = self.n
        ss = n.new()
        se = n.seq(sg, ss, True)
        s2 = n.new()
        n.eps[s].append(s2)
        for q in n.eclose({ss}):
            for tr in n.tr[q]:
                n.tr[s2].append(tr)
        return se

    def _H(self, s):
        """One whole admissible segment for a globstar, from s; returns end state."""
        n = self.n
        wild = n.nonsep_mask
        dot = n.dot_mask
        s0 = n.new()
        n.eps[s].append(s0)
        s = s0
        hx = n.new()
        n.tr[hx].append((wild, hx, LAB_WILD))
        if self.pf.dotglob:
            d1 = n.new()
            d2 = n.new()
            n.tr[s].append((wild & ~dot, hx, LAB_WILD))
            if dot:
                n.tr[s].append((dot, d1, LAB_WILD))
                n.tr[d1].append((wild & ~dot, hx, LAB_WILD))
                n.tr[d1].append((dot, d2, LAB_WILD))
                n.tr[d2].append((wild, hx, LAB_WILD))
        else:
            n.tr[s].append((wild & ~dot, hx, LAB_WILD))
        out = n.new()
        n.eps[hx].append(out)
        return out


class PathTracker:
    """Domain tracker for paths (reads right-to-left).

    State: (hidden, special, first_dot, dots, nonsep, ends_sep, last_sep, empty)
      hidden/special: some completed segment began with '.' (and is not special) / was exactly '.' or '..'
      first_dot: the current segment (non-empty) so far begins with '.'; dots: 0 = the current segment is empty or
      contains a non-dot, 1..3 = it consists only of that many dots (3 = three or more)
      nonsep: some non-separator seen; ends_sep: the path ends with a separator; last_sep: last read char is a sep
    accepting(state) returns the finalised tuple (hidden, special, nonempty, nonsep, ends_sep, absolute).
    """

    def __init__(self, alphabet, seps):
        self.sep = {i for i, c in enumerate(alphabet) if c in seps}
        self.dot = alphabet.index(0x2e) if 0x2e in alphabet else -1
        self.init = (False, False, False, 0, False, False, False, True)
        self._fin = {}

    @staticmethod
    def _close(hidden, special, first_dot, dots):
        if first_dot:
            if dots in (1, 2):
                special = True
            else:
                hidden = True
        return hidden, special

    def step(self, S, ci):
        hidden, special, first_dot, dots, nonsep, ends_sep, last_sep, empty = S
        if ci in self.sep:
            hidden, special = self._close(hidden, special, first_dot, dots)
            return (hidden, special, False, 0, nonsep, ends_sep or empty, True, False)
        seg_empty = last_sep or empty
        if ci == self.dot:
            if seg_empty:
                nd = 1
            elif dots:
                nd = min(dots + 1, 3)
            else:
                nd = 0
            return (hidden, special, True, nd, True, ends_sep, False, False)
        return (hidden, special, False, 0, True, ends_sep, False, False)

    def accepting(self, S):
        r = self._fin.get(S)
        if r is None:
            hidden, special, first_dot, dots, nonsep, ends_sep, last_sep, empty = S
            hidden, special = self._close(hidden, special, first_dot, dots)
            r = self._fin[S] = (hidden, special, not empty, nonsep, ends_sep, last_sep)
        return r


# ================================================================ labelled-run filters (DESIGN 3.3, C03)

def filter_runs(nfa, start, final, seps_mask, hidden_ok, special_ok, path):
    """Product of a labelled reference NFA with a per-segment tracker; keeps only runs allowed by the policies.

    Tracker per run: k (0 at segment start, 1/2 = segment so far is that many dots, 3 = anything else),
    lead (0 = segment does not start with '.', 1 = leading dot consumed by a first-token written dot (LAB_DOT1),
    2 = by another written dot, 3 = by a wildcard), allw (every dot of an all-dots segment consumed by a written dot).
    When a segment closes (separator or end of name):
      hidden non-special segment (lead != 0, not (path and k in 1,2)) -> hidden_ok(lead) must hold
      special segment (path mode, k in 1,2)                          -> special_ok(lead, allw) must hold
    Returns (RefNFA-like object, start, final) accepted by RevDFA.
    """
    out = RefNFA(nfa.alphabet, nfa.mode)
    ids = {}
    order = []

    def sid(key):
        i = ids.get(key)
        if i is None:
            i = ids[key] = out.new()
            order.append(key)
        return i

    def closes_ok(k, lead, allw):
        if lead == 0:
            return True
        if path and k in (1, 2):
            return special_ok(lead, allw)
        return hidden_ok(lead)

    dot = nfa.dot_mask
    s0 = sid((start, 0, 0, True))
    fin = out.new()
    i = 0
    while i < len(order):
        q, k, lead, allw = order[i]
        me = ids[order[i]]
        i += 1
        if q == final and closes_ok(k, lead, allw):
            out.eps[me].append(fin)
        for t in nfa.eps[q]:
            out.eps[me].append(sid((t, k, lead, allw)))
        for mask, t, lab in nfa.tr[q]:
            # separators
            m_sep = mask & seps_mask
            if m_sep and closes_ok(k, lead, allw):
                out.tr[me].append((m_sep, sid((t, 0, 0, True)), lab))
            m_dot = mask & dot & ~seps_mask
            if m_dot:
                written = lab in (LAB_DOT, LAB_DOT1)
                if k == 0:
                    nl = 1 if lab == LAB_DOT1 else 2 if lab == LAB_DOT else 3
                    out.tr[me].append((m_dot, sid((t, 1, nl, written)), lab))
                elif k in (1, 2):
                    out.tr[me].append((m_dot, sid((t, k + 1, lead, allw and written)), lab))
                else:
                    out.tr[me].append((m_dot, sid((t, 3, lead, allw)), lab))
            m_oth = mask & ~dot & ~seps_mask
            if m_oth:
                out.tr[me].append((m_oth, sid((t, 3, lead, allw)), lab))
    return out, s0, fin
