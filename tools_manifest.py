#!/venv/bin/python
"""Regenerate MANIFEST.json from the table below (kept in one place so it stays valid)."""
import json
import os

HERE = os.path.dirname(os.path.abspath(__file__))
BASE = 'cd /repo && /venv/bin/python -m pytest -ra -q -p no:cacheprovider --timeout=900 --continue-on-collection-errors'

CHECKS = {
    'C20': dict(level='exploration', engine='enum+AUT', design='6 C20',
                technique='exhaustive bounded enumeration of pattern strings against an independent decoder; '
                          'explicit-state product of executed-regex automata when texts differ',
                text='All strings up to length 5 (quick) / 6 (+1/12 of length 7) over two reduced escape alphabets, '
                     'x8 configurations x RAWCHARS on/off, compared with a decoder written from the statement; '
                     'meaning equality by identical translate() text or by exhaustive product-automaton exploration.',
                note='Trusts: identical regex text means identical language; CPython re parser for the automaton '
                     'translation (bound by replaying every explored state on the real regex).'),
}

CHECKS['C01'] = dict(
    level='model_checking', engine='AUT', design='6 C01',
    technique='explicit-state exploration of the product automaton (executed regex x reference built from the '
              'pattern AST x domain tracker), exhaustive over generated patterns up to a token budget',
    text='For every generated fnmatch pattern (all ASTs up to the token budget, full bracket/POSIX/escape menu at '
         'small budgets) x 32 flag sets, every reachable product state is checked, which decides the property for '
         'all names of every length; every explored state is replayed on the public API.',
    note='Trusts CPython re._parser as the description of what re executes (bound by per-state replay on the real '
         'matcher); reference semantics written from the documentation; cased non-ASCII code points excluded under '
         'IGNORECASE; !(..) compared only in the shapes the statement commits to.')

CHECKS['C02'] = dict(
    level='model_checking', engine='AUT', design='6 C02',
    technique='explicit-state exploration of the product automaton (executed regex x segment-semantics reference x '
              'path-domain tracker), exhaustive over generated path patterns up to a token budget',
    text='For every generated path pattern (leaves a . * ** *** ? [ab] [!a] / // \\/ ****, extended groups, '
         'separator-discipline probes) x up to 64 flag sets, every reachable product state is checked, deciding the '
         'property for all paths of every length in the domain C02 speaks about; every state replayed on the API.',
    note='Reference = segment semantics written from the statement; don\'t-care regions listed in the evidence '
         'assumptions; CPython re._parser trusted and bound by per-state replay.')

CHECKS['C03'] = dict(
    level='model_checking', engine='AUT', design='6 C03',
    technique='explicit-state exploration of the product automaton (executed regex x two languages derived from the '
              'labelled reference NFA by a per-segment run filter x tracker); emptiness / inclusion decided on every '
              'reachable state',
    text='For every generated fnmatch- and path-mode pattern (including dot-free ones) x flag sets over DOTGLOB, '
         'NODOTDIR, GLOBSTAR, MATCHBASE, the pathlib-match prefix and EXTGLOB: no accepted hidden/special name lacks '
         'an accepting run that consumes each leading dot with a written dot (exact emptiness for dot-free patterns), '
         'first-token written dots are granted, exclusion patterns equal the DOTGLOB inclusion language.',
    note='Three-valued reference (must-reject / must-accept / don\'t-care) deliberately weaker than or equal to the '
         'statement; glob()/WcMatch halves on real trees are explored by the FSX checks (C05, C14).')

CHECKS['C07'] = dict(
    level='model_checking', engine='AUT', design='6 C07',
    technique='explicit-state product exploration: language equality between the executed regexes of a constructed '
              'list presentation and the union/difference assembled from its single pieces',
    text='All ordered lists of up to 2 inclusions and 1 exclusion (quick; thorough: up to 2 and 2, plus a seed-chosen eighth '
         'of the lists with 3 inclusions and at most 1 exclusion) from dot-, slash-, '
         'bracket- and group-sensitive pools, in ten presentations (exclude=, inline !/-, orders, duplicates, SPLIT '
         'joins, NEGATEALL, brace templates x SPLIT x NEGATE), fnmatch and glob mode; equality decided on all names; '
         'translate() list lengths compared with the number of distinct pieces and translate()\'s regexes held to the same '
         'decomposition language; bytes twins on probe names; every witness and witness+newline through the public match().',
    note='Single-piece semantics come from the library (decided by C01/C02); decomposition is known by construction; '
         'empty brace expansions are dropped as Bash does.')
CHECKS['C08'] = dict(
    level='model_checking', engine='AUT', design='6 C08',
    technique='explicit-state product exploration: automaton of translate() regexes vs automaton of the regexes '
              'compile() executes; capture groups counted against the AST and checked on all names up to length 3',
    text='Every generated fnmatch/glob pattern (C01/C02 menus) x flag sets and every small list with exclude= / inline '
         'negation / SPLIT / BRACE: all translate() regexes compile and denote exactly the matcher\'s language (all '
         'names); number and order of capture groups equal the extended groups of the AST; captured text of top-level '
         'non-negated groups is the text the group consumed.',
    note='Capture-content sub-oracle is the library\'s own fnmatch on prefix/group/suffix patterns (fnmatch mode).')

CHECKS['C09'] = dict(
    level='model_checking', engine='AUT', design='6 C09',
    technique='explicit-state product exploration: automaton of the regex executed for escape(s) (or a non-magic p) vs '
              'the singleton language written as a regex from s; exhaustive over strings x flag subsets',
    text='All strings up to length 2 over a 19-symbol metacharacter alphabet x all 4096 subsets of 12 feature flags '
         '(quick: length 1, and length 2 with small/large subsets) x FORCEUNIX/FORCEWIN x fnmatch/glob, longer strings '
         'and separator-run/metacharacter adjacencies x covering families, Windows drive/UNC shapes with two-sided '
         'bounds; the escaped pattern must denote exactly {s} modulo case/separator equivalences (exact language check).',
    note='Singleton reference regex is written from the statement; comparisons cached per distinct executed regex.')
CHECKS['C17'] = dict(
    level='model_checking', engine='AUT', design='6 C17',
    technique='relational (2-safety) product-automaton exploration over the executed regexes: mode table equalities, '
              'case closure, separator closure, Windows vs Unix+IGNORECASE under backslash->slash, drive/UNC bounds',
    text='Every generated mixed-case pattern (fnmatch and path mode) x base flags x all 16 subsets of {CASE, IGNORECASE, '
         'FORCEWIN, FORCEUNIX}, str and bytes: language equality with the canonical mode, closure of the accepted set '
         'under ASCII case and separator substitution (all pairs of related names), agreement of FORCEWIN with '
         'Unix-mode matching of the normalised name, escaped-backslash separators, drive/UNC prefixes.',
    note='Pure matching only (Windows walking cannot run here); drive/UNC prefix regexes written from the statement.')
CHECKS['C18'] = dict(
    level='model_checking', engine='AUT+enum', design='6 C18',
    technique='exhaustive enumeration of patterns/lists/strings with str-vs-bytes differential oracle; product-automaton '
              'exploration where regex texts differ and for per-byte bracket semantics over a byte alphabet',
    text='translate/compile regex texts of the bytes call equal the encoded str texts for every generated pattern, list '
         'and RAWCHARS escape string (automata compared otherwise); bytes-mode brackets/POSIX classes equal the per-byte '
         'reference on all byte strings; escape/is_magic agree; every entry point raises TypeError on a str/bytes mix; '
         'glob and WcMatch on a real tree with Latin-1 names return the encoded paths in the same order.',
    note='Identical regex text is taken to have identical meaning on ASCII subjects in str and bytes mode.')

CHECKS['C05'] = dict(
    level='exploration', engine='FSX', design='6 C05',
    technique='explicit-state exploration of file-system states (all trees reachable by <= K create-operations, '
              'de-duplicated); in every state the real glob() on the materialised tree vs a reference walker over '
              'the state model and vs Bash 5.2',
    text='All trees with <= 2 create-operations (quick; + a seed-chosen eighth of the 3-op layer and deeper seed '
         'states; thorough: all <= 3 + an eighth of 4) over names a b .h (files, dirs, symlinks to files/dirs/ancestors/'
         'nowhere, cycles) x 781/1769 segment-menu patterns x 10 flag sets; a second layer with names a A b for '
         'IGNORECASE. Reference = independent segment-by-segment walk of the model (three-valued on hidden names); '
         'Bash pathname expansion decides the don\'t-cares on the shared fragment.',
    note='Real syscalls on a scratch directory; the model resolver is cross-checked against the kernel in every state; '
         'Bash comparison skipped for duplicate-separator patterns and for ** on trees with symlinked directories.')

CHECKS['C04'] = dict(
    level='exploration', engine='FSX', design='6 C04',
    technique='explicit-state exploration of file-system states; in every state a differential oracle between two '
              'implementations: glob() vs globmatch(REALPATH) over all entry spellings and glob results, plus the '
              'explicit REALPATH clauses; history-dependent failures are confirmed by re-running the chunk in a fresh process',
    text='All trees with <= 2 create-operations (+ an eighth of the 3-op layer and deeper seed states; thorough <= 3 + '
         'an eighth of 4) x FS pattern set and pattern lists with NEGATE/exclude x 12 flag sets over GLOBSTAR, '
         'GLOBSTARLONG, FOLLOW, DOTGLOB, EXTGLOB, MATCHBASE, NODIR, IGNORECASE x root given by root_dir / cwd / dir_fd: '
         'glob results == candidates accepted by globmatch(REALPATH); non-existent never matches, relative pattern never '
         'matches an absolute path, a directory-demanding pattern matches a slash-less path iff it is a directory.',
    note='Link-following configurations are evaluated only on trees without directory cycles (the walk is unbounded '
         'there by design); every chunk runs in a fresh worker process so that a chunk is a complete replayable history.')

CHECKS['C06'] = dict(
    level='exploration', engine='FSX', design='6 C06',
    technique='explicit-state exploration of file-system states containing symlinks; os.scandir interposed to log and '
              'bound directory listings; reference walker with the link rule; alignment search over pattern segments for '
              'every listed directory',
    text='Every explored state with a symlink (to ancestors, siblings, files, hidden directories, nowhere; cycles) x every '
         'pattern with ** / *** in any position and explicit link/* forms x 10 flag sets over FOLLOW, GLOBSTARLONG, '
         'MATCHBASE, DOTGLOB: glob result vs reference, globmatch(REALPATH) vs reference on entry and through-link '
         'spellings, no directory listed through a symlink consumed by a non-following globstar, bounded number of '
         'listings on cyclic trees, WcMatch without SYMLINKS never enters a link and terminates.',
    note='Termination is a horizon on counted scandir calls (never wall-clock); link-following configurations are run '
         'only on trees without directory cycles.')

_FSX = ('explicit-state exploration of file-system states (all trees reachable by <= K create-operations, de-duplicated, '
        'plus deeper seed states), real library run on the materialised tree in every state; ')
CHECKS['C12'] = dict(
    level='exploration', engine='FSX', design='6 C12',
    technique=_FSX + 'well-formedness predicates on every returned element and multiset equality across five ways of giving the root',
    text='Every explored state x FS patterns (relative, absolute, ./ ../ // trailing /) and BRACE/SPLIT/NEGATE lists x 10 flag '
         'sets over MARK, NODIR, GLOBSTAR, DOTGLOB, SCANDOTDIR, MATCHBASE: each element exists, is spelled relative/absolute '
         'like its pattern, has a trailing separator exactly when required, is no directory under NODIR; iglob == glob; same '
         'multiset for root_dir str/bytes/Path, dir_fd and cwd.',
    note='Existence and directory-ness come from the state model; every chunk in a fresh process (replayable history).')
CHECKS['C13'] = dict(
    level='exploration', engine='FSX', design='6 C13',
    technique=_FSX + 'expected value assembled from real single-pattern glob results and the single-pattern matcher',
    text='Every explored state (incl. an a/A/b layer for IGNORECASE) x ordered lists of 1..2 (thorough 3) overlapping pool '
         'patterns x 0..2 exclusions x presentations (exclude=, inline, SPLIT, BRACE, NEGATEALL, pathlib): set == union minus '
         'exclusions, no identical path twice, NOUNIQUE == in-order concatenation.',
    note='Sub-oracles: single-pattern glob() and globmatch(); IGNORECASE compared modulo case folding.')
CHECKS['C14'] = dict(
    level='exploration', engine='FSX', design='6 C14',
    technique=_FSX + 'independent recursive walk of the state model with per-file / per-directory predicates written from '
              'the statement',
    text='Every explored state x (file pattern, exclude pattern) pairs from pools with |, negations, groups, braces, path '
         'patterns and the empty pattern x a pairwise-covering family of subsets of the 11 WcMatch flags: result multiset and '
         'get_skipped() equal the reference walk.',
    note='List logic (BRACE, |, negation, everything-except) is re-implemented in the oracle; single pieces use the '
         'library\'s single-pattern matcher.')
CHECKS['C16'] = dict(
    level='exploration', engine='FSX', design='6 C16',
    technique=_FSX + 'differential comparison of pathlib entry points with glob.glob / glob.globmatch and with the reference '
              'walker (implicit recursive prefix)',
    text='Every explored state x FS patterns x 9 flag sets x every path object naming an entry: Path.glob == glob.glob joined '
         'on the root, rglob vs reference with implicit leading recursive segment, match(REALPATH) <=> membership in rglob, '
         'globmatch/full_match == glob.globmatch on the path string (directory slash for concrete paths), ValueError for '
         'absolute patterns and foreign-platform REALPATH, user FORCEWIN/FORCEUNIX ignored, no duplicates.',
    note='Patterns whose matches pathlib re-spells (., .., //, SCANDOTDIR) are outside the match<=>rglob clause.')

CHECKS['C15'] = dict(
    level='exploration', engine='SEQ', design='6 C15',
    technique='exhaustive enumeration of abort points, raising-hook positions and operation sequences on real objects against '
              'a reference model built from the uninterrupted trace; controlled two-thread scheduler (sys.settrace line '
              'events + baton) placing kill() before every line event of the walking thread',
    text='Six fixed trees: kill() from every hook invocation index and from the consumer between any two results, hooks '
         'raising at every index (with and without on_skip values); every operation sequence up to length 6 (thorough 7) over '
         '{match, imatch, next, kill, reset, is_aborted, get_skipped} compared step by step with the model (results, '
         'on_reset count, skipped counter, abort flag); kill from a second thread at every line-level position.',
    note='The second thread has a single atomic step, so its placement before each line event of the first thread is the '
         'complete interleaving space of this harness; asynchronous kill is judged as prefix + at most one further result.')

CHECKS['C11'] = dict(
    level='exploration', engine='SEQ', design='6 C11',
    technique='exhaustive enumeration of (inclusion list, exclusion list, limit, entry point) over a catalogue with known '
              'expansion counts around each limit, against a reference budget machine; bracex.iexpand interposed to count '
              'items pulled and to record the budget handed to bracex (fault horizon instead of timing)',
    text='Limits 1,2,3,5,32,33 (thorough +1000,1001), 0 and the default x 15 entry points + WcMatch x lists of 1..2 (3) '
         'inclusions and 0..1 (2) exclusions given by exclude= or inline NEGATE: unique count > L raises '
         'PatternLimitException, total <= L does not, limit=0 never raises, omitted limit == 1000, at most L+1+patterns '
         'expansions pulled, bracex never receives an unlimited budget; the 10^8 range fails fast in every position.',
    note='Counts come from the catalogue\'s own expander (bracex.expand without limit on small shapes); bracex is trusted to '
         'honour the limit it is given.')

CHECKS['C19'] = dict(
    level='exploration', engine='SEQ', design='6 C19',
    technique='exhaustive enumeration of call sequences over a collision-designed pool against fresh-interpreter reference '
              'values; controlled two-thread scheduler (sys.settrace events + baton) exploring the default schedule and every '
              'schedule with one preemption; pairwise object equality / language comparison',
    text='All sequences of length <= 3 (thorough 4) over 30 call tuples + FLOOD (260 distinct patterns, more than the cache '
         'holds): every value equals the value of the same call in a fresh interpreter; all ordered pairs of calls on two '
         'threads with every single preemption at call granularity (and at line granularity for the pure-matching sub-pool); '
         '117 matcher configurations: twins ==/hash-equal, == implies equal behaviour, inner flags and language, '
         'pickle/copy/deepcopy round trips, immutability, reuse.',
    note='Scheduling points are Python-level events inside wcmatch/*.py; C code (re, lru_cache) is atomic under the '
         'interpreter lock; preemption bound 1.')

CHECKS['C10'] = dict(
    level='exploration', engine='SEQ', design='6 C10',
    technique='exhaustive bounded enumeration of pattern strings (two metacharacter alphabets, str and bytes), single-token '
              'mutations of all small generated patterns and planted regex-significant substrings, executed on every entry '
              'point of the real code; product-automaton equality for the malformed-construct catalogue; Bash [[ ]] oracle',
    text='All strings up to length 5 (thorough 6) over * ? [ ] ( ) | ! @ \\ / a and up to 3 (4) over a 21-symbol alphabet, '
         'bytes up to 4 (5), about 49k token mutations, 300 template x substring plants, x up to 11 flag sets x compile, '
         'translate, match/filter on three names, is_magic, escape, glob/iglob/Path.glob/rglob/PurePath.match/WcMatch on a '
         'real tree: only documented exceptions, every translate() regex compiles, entry points agree; malformed constructs '
         'denote their escaped spelling (all names) and agree with Bash on 819 names.',
    note='Patterns with an absolute piece are not handed to the walkers (they would walk the machine root).')

PENDING = {}


def main():
    props = [json.loads(l) for l in open(os.path.join(HERE, 'properties.jsonl'))]
    checks = []
    na = []
    for p in props:
        pid = p['id']
        c = CHECKS.get(pid)
        if c is None:
            na.append({'property_id': pid, 'reason': PENDING.get(pid, 'check not built yet in this round (planned in DESIGN.md section 6)')})
            continue
        checks.append({
            'property_id': pid,
            'quick_cmd': './check %s --tier quick' % pid,
            'thorough_cmd': './check %s --tier thorough' % pid,
            'evidence_file': 'evidence/%s.json' % pid,
            'replay_cmd_template': './check --replay {path}',
            'engine': c['engine'],
            'level_claimed': {'category': c['level'], 'text': c['text'], 'design_ref': 'DESIGN.md ' + c['design']},
            'level_note': c['note'],
            'technique': c['technique'],
        })
    m = {
        'version': 1,
        'setup_cmd': '/venv/bin/python -c "import sys; sys.path.insert(0, \'/verif\'); import vf.bind"',
        'hooks': {
            'guard': 'WCMATCH_VERIF',
            'enable': 'no source hooks: all interposition is done from the harness process on library-external seams '
                      '(os.scandir, os.walk, bracex.iexpand, sys.settrace); checks import wcmatch fresh from /repo',
            'baseline_off_cmd': BASE,
            'source_commits': [],
            'add_only': True,
        },
        'engines': [
            {'name': 'AUT', 'path': 'vf/sre_aut.py vf/alphabet.py vf/product.py vf/ref_aut.py',
             'kind_free_text': 'explicit-state exploration of product automata extracted from the executed regexes'},
            {'name': 'FSX', 'path': 'vf/fsx.py', 'kind_free_text': 'explicit-state exploration of file-system states'},
            {'name': 'SEQ', 'path': 'vf/seqx.py vf/sched.py',
             'kind_free_text': 'operation-sequence explorer and controlled thread scheduler'},
        ],
        'checks': checks,
        'not_applicable': na,
        'notes': 'See DESIGN.md. Exit codes: 0 held, 1 violation (VIOLATION line), 2 harness error.',
    }
    with open(os.path.join(HERE, 'MANIFEST.json'), 'w') as f:
        json.dump(m, f, indent=1)
        f.write('\n')


if __name__ == '__main__':
    main()
